#!/bin/sh
# usage: ./check.sh <property-id> [quick|thorough]
# Rebuilds the simulator from /repo's working tree and runs the check for one property.
cd /verif || exit 2
[ -x bin/vcheck ] && [ -x bin/vrewrite ] || ./setup.sh >/dev/null 2>&1 || { echo "setup failed" >&2; exit 2; }
tier="${2:-${VERIF_TIER:-quick}}"
exec bin/vcheck run -prop "$1" -tier "$tier"
