#!/bin/sh
# runs the thorough tier of every property in turn (used with `vp run`); prints one summary line each
cd /verif || exit 2
for p in ${*:-C01 C02 C03 C04 C05 C06 C07 C08 C09 C10 C11 C12 C13 C14 C15 C16 C17 C18 C19 C20}; do
  ./check.sh $p thorough 2>&1 | grep "VIOLATION\|signature\|detail\|property=\|HARNESS\|BUILD" | cut -c1-400
  echo "== $p exit=$?"
done
