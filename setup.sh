#!/bin/sh
# Build the driver and the rewriter from files on disk only (offline).
cd /verif || exit 2
export GOFLAGS=-mod=mod GOPROXY=off GOTOOLCHAIN=local
G=/root/go/pkg/mod/golang.org/toolchain@v0.0.1-go1.25.0.linux-amd64/bin/go
[ -x "$G" ] || G="$(go env GOMODCACHE 2>/dev/null)/golang.org/toolchain@v0.0.1-go1.25.0.linux-amd64/bin/go"
[ -x "$G" ] || G=/opt/veriftools/go1.26.8/bin/go
[ -x "$G" ] || G=go1.26.8
mkdir -p bin
"$G" build -o bin/vrewrite ./cmd/vrewrite || exit 2
"$G" build -o bin/vcheck ./cmd/vcheck || exit 2
echo "setup ok ($G)"
