#!/usr/bin/env python3
# Regenerates MANIFEST.json from checks.json + manifest_text.json (per-property level text).
import json, subprocess
props=[json.loads(l) for l in open('/verif/properties.jsonl')]
checks=json.load(open('/verif/checks.json'))
text=json.load(open('/verif/manifest_text.json'))
hooks=subprocess.run(['git','-C','/repo','log','--format=%h %s'],capture_output=True,text=True).stdout.splitlines()
hook_commits=[l.split()[0] for l in hooks if l.split(' ',1)[1].startswith('verif hooks')]
m={
 "version":1,
 "setup_cmd":"./setup.sh",
 "hooks":{"guard":"verif",
  "enable":"go test -c -tags verif -overlay <generated overlay.json> (bin/vcheck builds it from /repo's working tree on every invocation)",
  "baseline_off_cmd":"cd /repo && GOFLAGS=-mod=mod GOPROXY=off go test -vet=off -count=1 -timeout 25m ./...",
  "source_commits":hook_commits,"add_only":True},
 "engines":[{"name":"pubsub-dst","path":"/verif/sim (harness, compiled into package pubsub through -overlay), /verif/cmd/vcheck (driver), /verif/cmd/vrewrite (build-time source rewriter)",
   "serves_properties":sorted(checks.keys()),
   "kind_free_text":"deterministic simulation with fault injection: real package code in one testing/synctest bubble per run, simulated libp2p host/transport, seeded scheduler (one input per quiescence), seeded map order and math/rand via build-time rewrite, delta-debugging shrinker, replay files"}],
 "checks":[],
 "notes":"All checks: ./check.sh <ID> [quick|thorough]; VERIF_SEED seeds the batch. Replay: bin/vcheck replay <file>. Known findings: KNOWN_FINDINGS.json. See DESIGN.md.",
 "not_applicable":[]
}
for p in props:
    pid=p['id']
    if pid in checks and pid in text:
        c=checks[pid]; t=text[pid]
        m["checks"].append({
          "property_id":pid,
          "quick_cmd":"./check.sh %s quick"%pid,
          "thorough_cmd":"./check.sh %s thorough"%pid,
          "evidence_file":"/verif/evidence/%s.json"%pid,
          "replay_cmd_template":"bin/vcheck replay {path}",
          "engine":"pubsub-dst",
          "level_claimed":{"category":c.get("level","exploration"),"text":t["level_text"],"design_ref":t.get("design_ref","DESIGN.md section 6, "+pid)},
          "level_note":t["level_note"],
          "technique":t.get("technique","deterministic simulation with fault injection (seeded schedule/fault search, invariant + history oracles)")})
    else:
        m["not_applicable"].append({"property_id":pid,"reason":text.get(pid,{}).get("na_reason","check not built yet (work in progress; the design claims this property, see DESIGN.md section 6)")})
json.dump(m,open('/verif/MANIFEST.json','w'),indent=1)
print("checks:",[c["property_id"] for c in m["checks"]])
