#!/bin/sh
cd /verif || exit 2
for p in C05 C01 C18 C19 C16 C12 C13 C14 C17 C03; do
  VERIF_SEED=2 ./check.sh $p thorough 2>&1 | grep "VIOLATION\|signature\|detail\|property=\|HARNESS\|BUILD" | cut -c1-400
  echo "== $p done"
done
