// vrewrite: build-time source rewriter for the deterministic simulator.
//
// Input: the working tree of /repo (package pubsub and its sub-packages).
// Output: rewritten copies of the non-test sources plus an overlay.json for `go build -overlay`.
//
// Rewrites (both are refinements of Go semantics, see DESIGN.md 2.2):
//  1. `range m` over a map whose key type is not a pointer becomes
//     `range verifrt.Sorted(m)` (range-over-func, seeded canonical key order);
//  2. import "math/rand" becomes the seeded simrand package.
//  3. in func announceRetry the jitter draw is keyed by (pid, topic) so that concurrent retry
//     goroutines do not race on a shared stream.
//
// All edits keep every token on its original line, so line numbers in panics/traces are unchanged.
package main

import (
	"bytes"
	"encoding/json"
	"flag"
	"fmt"
	"go/ast"
	"go/importer"
	"go/parser"
	"go/token"
	"go/types"
	"io"
	"os"
	"os/exec"
	"path/filepath"
	"sort"
	"strings"
)

type listPkg struct {
	ImportPath string
	Dir        string
	Export     string
	GoFiles    []string
	CgoFiles   []string
	Standard   bool
}

type edit struct {
	off  int
	del  int
	text string
}

const modPath = "github.com/libp2p/go-libp2p-pubsub"

func main() {
	repo := flag.String("repo", "/repo", "repository root")
	out := flag.String("out", "", "output directory for rewritten sources and overlay.json")
	harness := flag.String("harness", "/verif/sim", "harness source directory")
	gobin := flag.String("go", "go", "go binary")
	tags := flag.String("tags", "verif", "build tags")
	porcupine := flag.String("porcupine", "", "directory of porcupine v1.3.0 sources (module cache)")
	noRewrite := flag.Bool("norewrite", false, "only produce the overlay (no source rewriting)")
	noSelect := flag.Bool("noselect", false, "do not patch the runtime's select poll order")
	flag.Parse()
	if *out == "" {
		fatal("need -out")
	}
	if err := os.MkdirAll(*out, 0o755); err != nil {
		fatal("%v", err)
	}

	targets := []string{".", "./timecache", "./partialmessages", "./partialmessages/bitmap"}
	args := append([]string{"list", "-export", "-deps", "-tags", *tags, "-json=ImportPath,Dir,Export,GoFiles,CgoFiles,Standard"}, targets...)
	cmd := exec.Command(*gobin, args...)
	cmd.Dir = *repo
	cmd.Stderr = os.Stderr
	raw, err := cmd.Output()
	if err != nil {
		fatal("go list: %v", err)
	}
	exports := map[string]string{}
	pkgs := map[string]*listPkg{}
	dec := json.NewDecoder(bytes.NewReader(raw))
	for {
		var p listPkg
		if err := dec.Decode(&p); err == io.EOF {
			break
		} else if err != nil {
			fatal("decode go list: %v", err)
		}
		pp := p
		pkgs[p.ImportPath] = &pp
		if p.Export != "" {
			exports[p.ImportPath] = p.Export
		}
	}

	overlay := map[string]string{}
	stats := map[string]int{}

	targetPaths := []string{modPath, modPath + "/timecache", modPath + "/partialmessages", modPath + "/partialmessages/bitmap"}
	for _, ip := range targetPaths {
		p := pkgs[ip]
		if p == nil {
			fatal("package %s not listed", ip)
		}
		if *noRewrite {
			continue
		}
		fset := token.NewFileSet()
		var files []*ast.File
		var names []string
		srcs := map[string][]byte{}
		for _, f := range p.GoFiles {
			fn := filepath.Join(p.Dir, f)
			b, err := os.ReadFile(fn)
			if err != nil {
				fatal("%v", err)
			}
			af, err := parser.ParseFile(fset, fn, b, parser.ParseComments|parser.SkipObjectResolution)
			if err != nil {
				fatal("parse %s: %v", fn, err)
			}
			files = append(files, af)
			names = append(names, fn)
			srcs[fn] = b
		}
		lookup := func(path string) (io.ReadCloser, error) {
			e, ok := exports[path]
			if !ok {
				return nil, fmt.Errorf("no export data for %s", path)
			}
			return os.Open(e)
		}
		conf := types.Config{Importer: importer.ForCompiler(fset, "gc", lookup), Error: func(err error) {}}
		info := &types.Info{Types: map[ast.Expr]types.TypeAndValue{}}
		_, terr := conf.Check(ip, fset, files, info)
		if terr != nil {
			// A type error means the tree does not compile; let the real build report it.
			fmt.Fprintf(os.Stderr, "vrewrite: type-check %s: %v (continuing, build will report)\n", ip, terr)
		}
		for i, af := range files {
			fn := names[i]
			src := srcs[fn]
			var edits []edit
			usesRT := false
			// import rewrite
			for _, imp := range af.Imports {
				if imp.Path.Value == `"math/rand"` {
					name := "rand"
					if imp.Name != nil {
						name = imp.Name.Name
					}
					s := fset.Position(imp.Pos()).Offset
					e := fset.Position(imp.End()).Offset
					edits = append(edits, edit{s, e - s, name + ` "` + modPath + `/internal/verifrt/simrand"`})
					stats["rand_imports"]++
				}
			}
			ast.Inspect(af, func(n ast.Node) bool {
				switch x := n.(type) {
				case *ast.RangeStmt:
					tv, ok := info.Types[x.X]
					if !ok || tv.Type == nil {
						return true
					}
					mt, ok := tv.Type.Underlying().(*types.Map)
					if !ok {
						return true
					}
					if _, isPtr := mt.Key().Underlying().(*types.Pointer); isPtr {
						stats["map_ranges_ptrkey_skipped"]++
						return true
					}
					if _, isIface := mt.Key().Underlying().(*types.Interface); isIface {
						stats["map_ranges_ifacekey_skipped"]++
						return true
					}
					s := fset.Position(x.X.Pos()).Offset
					e := fset.Position(x.X.End()).Offset
					edits = append(edits, edit{s, 0, "verifrt.Sorted("}, edit{e, 0, ")"})
					usesRT = true
					stats["map_ranges"]++
				case *ast.FuncDecl:
					if x.Name.Name == "announceRetry" && x.Body != nil && hasParams(x, "pid", "topic") {
						ast.Inspect(x.Body, func(m ast.Node) bool {
							ce, ok := m.(*ast.CallExpr)
							if !ok {
								return true
							}
							se, ok := ce.Fun.(*ast.SelectorExpr)
							if !ok || se.Sel.Name != "Intn" || len(ce.Args) != 1 {
								return true
							}
							if id, ok := se.X.(*ast.Ident); !ok || id.Name != "rand" {
								return true
							}
							s := fset.Position(se.Sel.Pos()).Offset
							edits = append(edits, edit{s, len("Intn"), "IntnKeyed"})
							e := fset.Position(ce.Rparen).Offset
							edits = append(edits, edit{e, 0, `, string(pid)+"|"+topic`})
							stats["keyed_rand"]++
							return true
						})
					}
				}
				return true
			})
			if usesRT {
				// put the import on the package-clause line
				e := fset.Position(af.Name.End()).Offset
				edits = append(edits, edit{e, 0, `; import verifrt "` + modPath + `/internal/verifrt"`})
			}
			if len(edits) == 0 {
				continue
			}
			sort.SliceStable(edits, func(a, b int) bool { return edits[a].off < edits[b].off })
			var buf bytes.Buffer
			fmt.Fprintf(&buf, "//line %s:1\n", fn)
			pos := 0
			for _, ed := range edits {
				buf.Write(src[pos:ed.off])
				buf.WriteString(ed.text)
				pos = ed.off + ed.del
			}
			buf.Write(src[pos:])
			rel, _ := filepath.Rel(*repo, fn)
			dst := filepath.Join(*out, "src", rel)
			os.MkdirAll(filepath.Dir(dst), 0o755)
			if err := os.WriteFile(dst, buf.Bytes(), 0o644); err != nil {
				fatal("%v", err)
			}
			overlay[fn] = dst
			stats["files_rewritten"]++
		}
	}

	// hide repository tests of the root package (the harness is self-contained)
	ents, _ := os.ReadDir(*repo)
	for _, e := range ents {
		if strings.HasSuffix(e.Name(), "_test.go") {
			overlay[filepath.Join(*repo, e.Name())] = ""
		}
	}
	// harness files -> in-package test files
	hents, err := os.ReadDir(*harness)
	if err != nil {
		fatal("%v", err)
	}
	for _, e := range hents {
		if e.IsDir() || !strings.HasSuffix(e.Name(), ".go") {
			continue
		}
		base := strings.TrimSuffix(e.Name(), ".go")
		base = strings.TrimSuffix(base, "_test")
		overlay[filepath.Join(*repo, "zz_verif_"+base+"_test.go")] = filepath.Join(*harness, e.Name())
	}
	// runtime package
	filepath.Walk(filepath.Join(*harness, "verifrt"), func(path string, fi os.FileInfo, err error) error {
		if err != nil || fi.IsDir() || !strings.HasSuffix(path, ".go") {
			return nil
		}
		rel, _ := filepath.Rel(*harness, path)
		overlay[filepath.Join(*repo, "internal", rel)] = path
		return nil
	})

	// porcupine v1.3.0 (module cache) mapped in as an internal package: checker only, the HTML
	// visualiser (which needs go:embed of a directory) is replaced by a stub of its one type.
	if *porcupine != "" {
		for _, f := range []string{"bitset.go", "checker.go", "model.go", "porcupine.go"} {
			src := filepath.Join(*porcupine, f)
			if _, err := os.Stat(src); err != nil {
				fatal("porcupine source missing: %v", err)
			}
			overlay[filepath.Join(*repo, "internal", "porcupine", f)] = src
		}
		stub := filepath.Join(*out, "porcupine_stub.go")
		os.WriteFile(stub, []byte("package porcupine\n\ntype Annotation struct {\n\tClientId int\n\tTag string\n\tStart, End int64\n\tDescription, Details, TextColor, BackgroundColor string\n}\n"), 0o644)
		overlay[filepath.Join(*repo, "internal", "porcupine", "stub.go")] = stub
	}

	// Go runtime: the poll order of select statements executed inside a synctest bubble is derived
	// from a seed the harness sets (runtime.verifSelectSeed) and the select's call site instead of
	// the runtime's unseedable per-M random numbers. One source line of runtime/select.go changes.
	if !*noSelect {
		goroot := strings.TrimSpace(runOut(*gobin, "env", "GOROOT"))
		src := filepath.Join(goroot, "src", "runtime", "select.go")
		b, err := os.ReadFile(src)
		if err != nil {
			fatal("runtime/select.go: %v", err)
		}
		const oldLine = "\t\tj := cheaprandn(uint32(norder + 1))\n"
		if strings.Count(string(b), oldLine) != 1 {
			fatal("runtime/select.go: the poll-order line was not found exactly once (Go version changed?)")
		}
		patched := strings.Replace(string(b), oldLine, "\t\tj := verifSelectIndex(gp, uint32(norder+1), sys.GetCallerPC())\n", 1)
		if !strings.Contains(patched, "\"internal/runtime/sys\"") {
			fatal("runtime/select.go does not import internal/runtime/sys")
		}
		patched += `
// verifSelectSeed is set by the deterministic-simulation harness (push linkname).
//
//go:linkname verifSelectSeed
var verifSelectSeed uint32

func verifSelectIndex(gp *g, n uint32, pc uintptr) uint32 {
	seed := verifSelectSeed
	if seed == 0 || gp.bubble == nil {
		return cheaprandn(n)
	}
	x := uint64(seed)*0x9e3779b97f4a7c15 ^ uint64(pc)*0xbf58476d1ce4e5b9 ^ uint64(n)*0x94d049bb133111eb
	x ^= x >> 31
	x *= 0xd6e8feb86659fd93
	x ^= x >> 32
	return uint32(x % uint64(n))
}
`
		dst := filepath.Join(*out, "runtime_select.go")
		if err := os.WriteFile(dst, []byte(patched), 0o644); err != nil {
			fatal("%v", err)
		}
		overlay[src] = dst
		stats["runtime_select_patched"] = 1
	}

	ob, _ := json.MarshalIndent(map[string]any{"Replace": overlay}, "", " ")
	if err := os.WriteFile(filepath.Join(*out, "overlay.json"), ob, 0o644); err != nil {
		fatal("%v", err)
	}
	sb, _ := json.Marshal(stats)
	os.WriteFile(filepath.Join(*out, "rewrite_stats.json"), sb, 0o644)
	fmt.Printf("vrewrite: %s\n", sb)
}

func hasParams(fd *ast.FuncDecl, names ...string) bool {
	have := map[string]bool{}
	for _, f := range fd.Type.Params.List {
		for _, n := range f.Names {
			have[n.Name] = true
		}
	}
	for _, n := range names {
		if !have[n] {
			return false
		}
	}
	return true
}

func fatal(f string, a ...any) {
	fmt.Fprintf(os.Stderr, "vrewrite: "+f+"\n", a...)
	os.Exit(2)
}

func runOut(name string, args ...string) string {
	out, err := exec.Command(name, args...).Output()
	if err != nil {
		fatal("%s %v: %v", name, args, err)
	}
	return string(out)
}
