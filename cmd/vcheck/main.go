// vcheck: driver of the deterministic-simulation checks.
//
//	vcheck run -prop C15 [-tier quick|thorough]   run a check (build from /repo's working tree, fan out seeds)
//	vcheck replay <file>                           re-run a replay file; exit 1 + VIOLATION line iff it reproduces
//	vcheck selftest -prop C15 -n 40                determinism self-test (same seed, several processes / GOMAXPROCS)
//
// Exit status: 0 property held on everything explored (known findings are printed, not counted);
// 1 violation (a line "VIOLATION property=<id> replay=<path>" is printed); 2 harness/build trouble.
package main

import (
	"bufio"
	"bytes"
	"crypto/sha256"
	"encoding/hex"
	"encoding/json"
	"flag"
	"fmt"
	"os"
	"os/exec"
	"path/filepath"
	"regexp"
	"runtime"
	"sort"
	"strconv"
	"strings"
	"sync"
	"time"
)

const verifDir = "/verif"

// repoDir is /repo; VERIF_REPO points the driver at another checkout (used only to try seeded
// changes on a scratch worktree while other checks are running against /repo).
var repoDir = func() string {
	if d := os.Getenv("VERIF_REPO"); d != "" {
		return d
	}
	return "/repo"
}()

type Violation struct {
	Property  string `json:"property"`
	Invariant string `json:"invariant"`
	Signature string `json:"signature"`
	Detail    string `json:"detail"`
	Step      int    `json:"step"`
	VTimeNs   int64  `json:"vtime_ns"`
}

type Plan struct {
	World string             `json:"world"`
	Prop  string             `json:"prop"`
	Seed  uint64             `json:"seed"`
	Knobs map[string]float64 `json:"knobs,omitempty"`
	SK    map[string]string  `json:"sknobs,omitempty"`
	Items []json.RawMessage  `json:"items"`
}

type RunResult struct {
	Seed       uint64         `json:"seed"`
	World      string         `json:"world"`
	Prop       string         `json:"prop"`
	Violations []Violation    `json:"violations,omitempty"`
	Digest     string         `json:"digest"`
	Steps      int            `json:"steps"`
	VTimeNs    int64          `json:"vtime_ns"`
	Probes     map[string]int `json:"probes,omitempty"`
	Faults     map[string]int `json:"faults,omitempty"`
	Nontrivial bool           `json:"nontrivial"`
	Class      string         `json:"class,omitempty"`
	Plan       *Plan          `json:"plan,omitempty"`
	Sample     any            `json:"sample,omitempty"`
	Extra      map[string]any `json:"extra,omitempty"`
	Panic      string         `json:"panic,omitempty"`
	WallUs     int64          `json:"wall_us"`
}

type Job struct {
	Prop    string   `json:"prop"`
	Tier    string   `json:"tier"`
	Seeds   []uint64 `json:"seeds"`
	Out     string   `json:"out"`
	Plan    *Plan    `json:"plan,omitempty"`
	KeepLog bool     `json:"keep_log,omitempty"`
	Samples int      `json:"samples,omitempty"`
}

type tierCfg struct {
	Runs     int     `json:"runs"`
	MaxWallS float64 `json:"max_wall_s"`
	Batch    int     `json:"batch"`
}

type checkCfg struct {
	Level       string             `json:"level"`
	Rule        string             `json:"rule"`
	Quick       tierCfg            `json:"quick"`
	Thorough    tierCfg            `json:"thorough"`
	Real        []string           `json:"real"`
	Stub        []string           `json:"stub"`
	Assumptions []string           `json:"assumptions"`
	NeedProbes  []string           `json:"need_probes"`
	SeqSeeds    bool               `json:"sequential_seeds"`
	Knobs       map[string]float64 `json:"knobs"`
}

type knownFinding struct {
	Property  string `json:"property"`
	Signature string `json:"signature"`
	Status    string `json:"status"` // known | fixed
	Commit    string `json:"commit,omitempty"`
	What      string `json:"what"`
	Replay    string `json:"replay,omitempty"`
}

func main() {
	if len(os.Args) < 2 {
		fmt.Fprintln(os.Stderr, "usage: vcheck run|replay|selftest ...")
		os.Exit(2)
	}
	switch os.Args[1] {
	case "run":
		os.Exit(cmdRun(os.Args[2:]))
	case "replay":
		os.Exit(cmdReplay(os.Args[2:]))
	case "selftest":
		os.Exit(cmdSelftest(os.Args[2:]))
	case "build":
		b, err := build()
		if err != nil {
			fmt.Fprintln(os.Stderr, err)
			os.Exit(2)
		}
		fmt.Println(b.bin)
		os.Exit(0)
	default:
		fmt.Fprintln(os.Stderr, "unknown command", os.Args[1])
		os.Exit(2)
	}
}

// ---------------------------------------------------------------------------------------------
// build

type built struct {
	dir string
	bin string
	env []string
}

func goBin() string {
	cands := []string{}
	if mc := os.Getenv("GOMODCACHE"); mc != "" {
		cands = append(cands, filepath.Join(mc, "golang.org/toolchain@v0.0.1-go1.25.0.linux-amd64/bin/go"))
	}
	home, _ := os.UserHomeDir()
	cands = append(cands, filepath.Join(home, "go/pkg/mod/golang.org/toolchain@v0.0.1-go1.25.0.linux-amd64/bin/go"),
		"/root/go/pkg/mod/golang.org/toolchain@v0.0.1-go1.25.0.linux-amd64/bin/go",
		"/opt/veriftools/go1.26.8/bin/go", "/usr/local/bin/go1.26.8")
	for _, c := range cands {
		if _, err := os.Stat(c); err == nil {
			return c
		}
	}
	return "go"
}

func goEnv() []string {
	env := os.Environ()
	env = append(env, "GOFLAGS=-mod=mod", "GOPROXY=off", "GOTOOLCHAIN=local", "GONOSUMDB=*", "GONOSUMCHECK=1", "GOFLAGS=-mod=mod")
	return env
}

func porcupineDir() string {
	home, _ := os.UserHomeDir()
	for _, c := range []string{filepath.Join(os.Getenv("GOMODCACHE"), "github.com/anishathalye/porcupine@v1.3.0"),
		filepath.Join(home, "go/pkg/mod/github.com/anishathalye/porcupine@v1.3.0"),
		"/root/go/pkg/mod/github.com/anishathalye/porcupine@v1.3.0"} {
		if _, err := os.Stat(filepath.Join(c, "checker.go")); err == nil {
			return c
		}
	}
	return ""
}

func build() (*built, error) {
	dir, err := os.MkdirTemp("", "vcheck-")
	if err != nil {
		return nil, err
	}
	gb := goBin()
	env := goEnv()
	// The runtime's select.go is overlaid (seeded poll order); the go command refuses overlays of
	// files beneath GOMODCACHE, where the cached toolchain lives, so the toolchain is addressed
	// through a stable alias (a symlink: the std build cache stays valid across invocations).
	if root := filepath.Dir(filepath.Dir(gb)); gb != "go" {
		alias := filepath.Join(verifDir, ".goroot")
		if cur, err := os.Readlink(alias); err != nil || cur != root {
			os.Remove(alias)
			if err := os.Symlink(root, alias); err != nil {
				return nil, fmt.Errorf("cannot create GOROOT alias: %v", err)
			}
		}
		gb = filepath.Join(alias, "bin", "go")
		env = append(env, "GOROOT="+alias)
	}
	vr := filepath.Join(verifDir, "bin", "vrewrite")
	if _, err := os.Stat(vr); err != nil {
		return nil, fmt.Errorf("vrewrite not built (run setup_cmd): %v", err)
	}
	pd := porcupineDir()
	if pd == "" {
		return nil, fmt.Errorf("porcupine v1.3.0 not found in module cache")
	}
	cmd := exec.Command(vr, "-repo", repoDir, "-out", dir, "-go", gb, "-harness", filepath.Join(verifDir, "sim"), "-porcupine", pd)
	cmd.Env = env
	var out bytes.Buffer
	cmd.Stdout, cmd.Stderr = &out, &out
	if err := cmd.Run(); err != nil {
		return nil, fmt.Errorf("vrewrite failed: %v\n%s", err, out.String())
	}
	bin := filepath.Join(dir, "sim.test")
	cmd = exec.Command(gb, "test", "-c", "-tags", "verif", "-overlay", filepath.Join(dir, "overlay.json"), "-vet=off", "-o", bin, ".")
	cmd.Dir = repoDir
	cmd.Env = env
	out.Reset()
	cmd.Stdout, cmd.Stderr = &out, &out
	if err := cmd.Run(); err != nil {
		return nil, fmt.Errorf("build of simulator binary failed: %v\n%s", err, out.String())
	}
	return &built{dir: dir, bin: bin, env: goEnv()}, nil
}

func (b *built) cleanup() {
	if b != nil && b.dir != "" {
		os.RemoveAll(b.dir)
	}
}

// ---------------------------------------------------------------------------------------------
// worker management

type workerOut struct {
	results   []*RunResult
	crashed   bool
	crashAt   uint64 // seed that was running when the worker died
	crashPlan *Plan
	stderr    string
	nextIdx   int // index into job.Seeds from which to continue (after crash/restart)
	done      bool
	hang      bool
}

var jobSeq int
var jobMu sync.Mutex

func runWorker(b *built, job Job, gomaxprocs int, timeout time.Duration) workerOut {
	jobMu.Lock()
	jobSeq++
	id := jobSeq
	jobMu.Unlock()
	jf := filepath.Join(b.dir, fmt.Sprintf("job%d.json", id))
	of := filepath.Join(b.dir, fmt.Sprintf("out%d.jsonl", id))
	job.Out = of
	jb, _ := json.Marshal(job)
	os.WriteFile(jf, jb, 0o644)
	defer os.Remove(jf)
	defer os.Remove(of)
	cmd := exec.Command(b.bin, "-test.run", "^TestVerifWorker$", "-test.timeout", "0", "-test.count", "1")
	cmd.Env = append(append([]string(nil), b.env...), "VERIF_JOB="+jf, "GOMAXPROCS="+strconv.Itoa(gomaxprocs), "GOTRACEBACK=all")
	cmd.Dir = b.dir
	var stderr bytes.Buffer
	cmd.Stdout = &stderr
	cmd.Stderr = &stderr
	if err := cmd.Start(); err != nil {
		return workerOut{crashed: true, stderr: err.Error()}
	}
	donec := make(chan error, 1)
	go func() { donec <- cmd.Wait() }()
	var werr error
	hang := false
	select {
	case werr = <-donec:
	case <-time.After(timeout):
		cmd.Process.Kill()
		<-donec
		hang = true
	}
	wo := workerOut{hang: hang}
	f, err := os.Open(of)
	var started *uint64
	var startedPlan *Plan
	if err == nil {
		sc := bufio.NewScanner(f)
		sc.Buffer(make([]byte, 1<<20), 1<<28)
		for sc.Scan() {
			line := sc.Bytes()
			var probe map[string]json.RawMessage
			if json.Unmarshal(line, &probe) != nil {
				continue
			}
			if v, ok := probe["start"]; ok {
				var s uint64
				json.Unmarshal(v, &s)
				started = &s
				startedPlan = nil
				if pv, ok := probe["plan"]; ok {
					var pl Plan
					if json.Unmarshal(pv, &pl) == nil {
						startedPlan = &pl
					}
				}
				continue
			}
			if _, ok := probe["done"]; ok {
				wo.done = true
				continue
			}
			if _, ok := probe["restart"]; ok {
				continue
			}
			var r RunResult
			if json.Unmarshal(line, &r) == nil {
				wo.results = append(wo.results, &r)
				started = nil
			}
		}
		f.Close()
	}
	wo.nextIdx = len(wo.results)
	if job.Plan != nil && len(wo.results) > 0 {
		wo.done = true
	}
	if !wo.done && !hang {
		if ee, ok := werr.(*exec.ExitError); ok && ee.ExitCode() == 3 {
			// orderly restart request
			return wo
		}
		if started != nil {
			wo.crashed = true
			wo.crashAt = *started
			wo.crashPlan = startedPlan
			wo.stderr = stderr.String()
			wo.nextIdx = len(wo.results) + 1
		} else if werr != nil {
			wo.crashed = true
			wo.stderr = stderr.String()
		}
	}
	if hang && started != nil {
		wo.crashAt = *started
		wo.crashPlan = startedPlan
		wo.stderr = "worker killed after timeout\n" + tail(stderr.String(), 4000)
		wo.nextIdx = len(wo.results) + 1
	}
	return wo
}

func tail(s string, n int) string {
	if len(s) > n {
		return s[len(s)-n:]
	}
	return s
}

// ---------------------------------------------------------------------------------------------
// run

func mixSeed(base uint64, prop string, i int) uint64 {
	h := sha256.Sum256([]byte(fmt.Sprintf("%d|%s|%d", base, prop, i)))
	var v uint64
	for k := 0; k < 8; k++ {
		v = v<<8 | uint64(h[k])
	}
	return v >> 1 // keep it inside int63 for JSON consumers
}

func loadCfg() map[string]checkCfg {
	b, err := os.ReadFile(filepath.Join(verifDir, "checks.json"))
	if err != nil {
		fmt.Fprintln(os.Stderr, "vcheck: cannot read checks.json:", err)
		os.Exit(2)
	}
	var m map[string]checkCfg
	if err := json.Unmarshal(b, &m); err != nil {
		fmt.Fprintln(os.Stderr, "vcheck: checks.json:", err)
		os.Exit(2)
	}
	return m
}

func loadKnown() []knownFinding {
	b, err := os.ReadFile(filepath.Join(verifDir, "KNOWN_FINDINGS.json"))
	if err != nil {
		return nil
	}
	var k []knownFinding
	if err := json.Unmarshal(b, &k); err != nil {
		fmt.Fprintln(os.Stderr, "vcheck: KNOWN_FINDINGS.json:", err)
		os.Exit(2)
	}
	return k
}

type agg struct {
	mu         sync.Mutex
	results    int
	steps      int64
	vtime      int64
	wallUs     int64
	probes     map[string]int
	faults     map[string]int
	classes    map[string]bool
	digests    map[string]bool
	worlds     map[string]int
	nontrivial int
	samples    []any
	viol       []*RunResult // runs with violations (first few per signature)
	bySig      map[string]int
	panics     []*RunResult
	harness    []string
	overflow   int
	bubbleEnd  int
}

func cmdRun(args []string) int {
	fs := flag.NewFlagSet("run", flag.ExitOnError)
	prop := fs.String("prop", "", "property id")
	tier := fs.String("tier", "", "quick|thorough (default: $VERIF_TIER or quick)")
	runs := fs.Int("runs", 0, "override number of runs")
	workers := fs.Int("workers", 0, "worker processes (default: NumCPU)")
	noShrink := fs.Bool("noshrink", false, "do not minimise")
	noEvidence := fs.Bool("noevidence", false, "do not write the evidence file")
	fs.Parse(args)
	if *prop == "" {
		fmt.Fprintln(os.Stderr, "need -prop")
		return 2
	}
	if *tier == "" {
		*tier = os.Getenv("VERIF_TIER")
	}
	if *tier != "thorough" {
		*tier = "quick"
	}
	base := uint64(1)
	if v := os.Getenv("VERIF_SEED"); v != "" {
		if x, err := strconv.ParseUint(v, 10, 64); err == nil {
			base = x
		} else if x, err := strconv.ParseInt(v, 10, 64); err == nil {
			base = uint64(x)
		}
	}
	fmt.Printf("VERIF_SEED=%d property=%s tier=%s\n", base, *prop, *tier)
	cfgs := loadCfg()
	cfg, ok := cfgs[*prop]
	if !ok {
		fmt.Fprintln(os.Stderr, "vcheck: no configuration for", *prop)
		return 2
	}
	tc := cfg.Quick
	if *tier == "thorough" {
		tc = cfg.Thorough
	}
	if *runs > 0 {
		tc.Runs = *runs
	}
	if tc.Runs == 0 {
		tc.Runs = 100
	}
	nw := *workers
	if nw <= 0 {
		nw = runtime.NumCPU()
	}
	if tc.Batch == 0 {
		tc.Batch = tc.Runs / (nw * 4)
		if tc.Batch < 5 {
			tc.Batch = 5
		}
		if tc.Batch > 400 {
			tc.Batch = 400
		}
	}
	start := time.Now()
	b, err := build()
	if err != nil {
		fmt.Fprintln(os.Stderr, "vcheck: BUILD FAILED (exit 2, not a violation):\n", err)
		return 2
	}
	defer b.cleanup()
	buildS := time.Since(start).Seconds()

	a := &agg{probes: map[string]int{}, faults: map[string]int{}, classes: map[string]bool{}, digests: map[string]bool{}, worlds: map[string]int{}, bySig: map[string]int{}}
	// work queue of batches
	type batch struct{ seeds []uint64 }
	var batches []batch
	for i := 0; i < tc.Runs; i += tc.Batch {
		var bs batch
		for j := i; j < i+tc.Batch && j < tc.Runs; j++ {
			if cfg.SeqSeeds {
				// enumeration: run j of this batch is case number base*2^32 + j
				bs.seeds = append(bs.seeds, (base<<32)+uint64(j))
			} else {
				bs.seeds = append(bs.seeds, mixSeed(base, *prop, j))
			}
		}
		batches = append(batches, bs)
	}
	var qmu sync.Mutex
	next := 0
	deadline := time.Time{}
	if tc.MaxWallS > 0 {
		deadline = start.Add(time.Duration(tc.MaxWallS * float64(time.Second)))
	}
	skipped := 0
	var wg sync.WaitGroup
	for w := 0; w < nw; w++ {
		wg.Add(1)
		go func() {
			defer wg.Done()
			for {
				qmu.Lock()
				if next >= len(batches) || (!deadline.IsZero() && time.Now().After(deadline)) {
					if next < len(batches) {
						skipped += len(batches) - next
						next = len(batches)
					}
					qmu.Unlock()
					return
				}
				bt := batches[next]
				next++
				qmu.Unlock()
				seeds := bt.seeds
				for len(seeds) > 0 {
					wo := runWorker(b, Job{Prop: *prop, Tier: *tier, Seeds: seeds, Samples: 1}, 2, 20*time.Minute)
					a.add(wo.results)
					if os.Getenv("VCHECK_DEBUG") != "" && len(wo.results) != len(seeds) {
						fmt.Fprintf(os.Stderr, "DEBUG worker not done: results=%d seeds=%d crashed=%v hang=%v next=%d stderr=%s\n", len(wo.results), len(seeds), wo.crashed, wo.hang, wo.nextIdx, tail(wo.stderr, 600))
					}
					if wo.crashed || wo.hang {
						idx := len(wo.results)
						var seed uint64
						if idx < len(seeds) {
							seed = seeds[idx]
						}
						if wo.crashAt != 0 {
							seed = wo.crashAt
						}
						if wo.hang {
							a.mu.Lock()
							a.harness = append(a.harness, fmt.Sprintf("worker hang at seed %d: %s", seed, tail(wo.stderr, 2000)))
							a.mu.Unlock()
						} else {
							a.addCrash(*prop, seed, wo.stderr, wo.crashPlan)
						}
					}
					if wo.done {
						break
					}
					if wo.nextIdx >= len(seeds) {
						break
					}
					seeds = seeds[wo.nextIdx:]
				}
			}
		}()
	}
	wg.Wait()
	wall := time.Since(start).Seconds()

	// classify violations
	known := loadKnown()
	exit := 0
	printedKnown := map[string]bool{}
	var unknown []*RunResult
	for _, r := range a.viol {
		allKnown := true
		for _, v := range r.Violations {
			k := matchKnown(known, v)
			if k != nil {
				if !printedKnown[k.Signature] {
					printedKnown[k.Signature] = true
					fmt.Printf("KNOWN-FINDING: property=%s %s [%s] (%d runs)\n", k.Property, k.What, k.Signature, a.bySig[v.Signature])
				}
			} else {
				allKnown = false
			}
		}
		if !allKnown {
			unknown = append(unknown, r)
		}
	}
	// a listed finding that no run of this batch met (a rare one) is replayed from its stored plan,
	// so that its line is printed whenever it still exists on this tree
	if os.Getenv("VERIF_REPO") == "" {
		for i := range known {
			k := &known[i]
			if k.Status != "known" || k.Property != *prop || printedKnown[k.Signature] || k.Replay == "" {
				continue
			}
			raw, err := os.ReadFile(filepath.Join(verifDir, k.Replay))
			if err != nil {
				continue
			}
			var rep struct {
				Plan *Plan `json:"plan"`
			}
			if json.Unmarshal(raw, &rep) != nil || rep.Plan == nil {
				continue
			}
			if r := runPlan(b, rep.Plan, false); r != nil && hasSig(r, k.Signature) {
				printedKnown[k.Signature] = true
				fmt.Printf("KNOWN-FINDING: property=%s %s [%s] (not met by this batch; reproduced from %s)\n", k.Property, k.What, k.Signature, k.Replay)
			}
		}
	}
	if len(a.harness) > 0 {
		for _, h := range a.harness {
			fmt.Fprintln(os.Stderr, "vcheck: HARNESS PROBLEM:", h)
		}
		exit = 2
	}
	// report unknown violations: one per signature, minimised
	reported := map[string]bool{}
	nviol := 0
	for _, r := range unknown {
		var v *Violation
		for i := range r.Violations {
			if matchKnown(known, r.Violations[i]) == nil {
				v = &r.Violations[i]
				break
			}
		}
		if v == nil || reported[v.Signature] {
			continue
		}
		reported[v.Signature] = true
		nviol++
		plan := r.Plan
		origLen := 0
		if plan != nil {
			origLen = len(plan.Items)
			if !*noShrink {
				plan = shrink(b, plan, v.Signature)
			}
		}
		if plan != nil {
			// record digest/detail of the plan actually written (the minimised one)
			if rr := runPlan(b, plan, false); rr != nil && hasSig(rr, v.Signature) {
				rr.Seed = r.Seed
				for i := range rr.Violations {
					if rr.Violations[i].Signature == v.Signature {
						v = &rr.Violations[i]
					}
				}
				if rr.World == "" {
					rr.World = r.World
				}
				r = rr
			}
		}
		path := writeReplay(*prop, r, v, plan, origLen)
		fmt.Printf("VIOLATION property=%s replay=%s\n", propOf(*prop, v), path)
		fmt.Printf("  signature: %s\n  detail: %s\n  seed: %d  plan items: %d -> %d\n", v.Signature, trunc(v.Detail, 600), r.Seed, origLen, planLen(plan))
		exit = 1
	}
	if exit == 2 && nviol > 0 {
		exit = 1
	}

	if !*noEvidence {
		writeEvidence(*prop, *tier, base, cfg, tc, a, wall, buildS, nviol, printedKnown, skipped*tc.Batch, nw)
	}
	fmt.Printf("property=%s tier=%s runs=%d distinct_classes=%d distinct_digests=%d nontrivial=%d steps=%d sim_time=%.1fs wall=%.1fs (build %.1fs) violations=%d known=%d\n",
		*prop, *tier, a.results, len(a.classes), len(a.digests), a.nontrivial, a.steps, float64(a.vtime)/1e9, wall, buildS, nviol, len(printedKnown))
	if a.results == 0 && exit == 0 {
		fmt.Fprintln(os.Stderr, "vcheck: no run completed")
		return 2
	}
	// probes that must not be stuck at zero
	for _, p := range cfg.NeedProbes {
		if a.probes[p] == 0 {
			fmt.Fprintf(os.Stderr, "vcheck: WARNING probe %q was never hit in this batch\n", p)
		}
	}
	return exit
}

func propOf(def string, v *Violation) string {
	if v.Property != "" && v.Property != "SIM" {
		return v.Property
	}
	return def
}

func planLen(p *Plan) int {
	if p == nil {
		return 0
	}
	return len(p.Items)
}

func trunc(s string, n int) string {
	if len(s) > n {
		return s[:n] + "..."
	}
	return s
}

func matchKnown(known []knownFinding, v Violation) *knownFinding {
	for i := range known {
		k := &known[i]
		if k.Status == "known" && k.Signature == v.Signature {
			return k
		}
	}
	return nil
}

func (a *agg) add(rs []*RunResult) {
	a.mu.Lock()
	defer a.mu.Unlock()
	for _, r := range rs {
		if r.Panic != "" {
			if strings.HasPrefix(r.Panic, "HANG") || strings.HasPrefix(r.Panic, "unknown") {
				a.harness = append(a.harness, fmt.Sprintf("seed %d: %s", r.Seed, trunc(r.Panic, 1500)))
				continue
			}
			// a panic on the simulator's root goroutine: harness or SUT code called synchronously
			sig := panicSignature(r.Prop, r.Panic)
			r.Violations = append(r.Violations, Violation{Property: r.Prop, Invariant: "crash", Signature: sig, Detail: trunc(r.Panic, 3000)})
		}
		a.results++
		a.steps += int64(r.Steps)
		a.vtime += r.VTimeNs
		a.wallUs += r.WallUs
		a.worlds[r.World]++
		for k, v := range r.Probes {
			a.probes[k] += v
		}
		for k, v := range r.Faults {
			a.faults[k] += v
		}
		if r.Extra != nil {
			if r.Extra["step_cap_reached"] != nil {
				a.overflow++
			}
			if r.Extra["bubble_end"] != nil {
				a.bubbleEnd++
			}
		}
		if r.Nontrivial {
			a.nontrivial++
			c := r.Class
			if c == "" {
				c = r.Digest
			}
			a.classes[r.World+"|"+c] = true
			a.digests[r.Digest] = true
		}
		if len(a.samples) < 3 && (r.Sample != nil || r.Plan != nil) && len(r.Violations) == 0 {
			s := map[string]any{"seed": r.Seed, "world": r.World, "digest": r.Digest, "steps": r.Steps}
			if r.Sample != nil {
				s["case"] = r.Sample
			}
			if r.Plan != nil {
				s["plan"] = r.Plan
			}
			a.samples = append(a.samples, s)
		}
		if len(r.Violations) > 0 {
			for _, v := range r.Violations {
				a.bySig[v.Signature]++
			}
			first := false
			for _, v := range r.Violations {
				if a.bySig[v.Signature] == 1 {
					first = true
				}
			}
			if first || len(a.viol) < 20 {
				a.viol = append(a.viol, r)
			}
		}
	}
}

var reGoroutine = regexp.MustCompile(`(?m)^goroutine \d+ \[running`)
var reHex = regexp.MustCompile(`0x[0-9a-f]+|[0-9]+`)

func panicSignature(prop, text string) string {
	msg := ""
	for _, l := range strings.Split(text, "\n") {
		if strings.HasPrefix(l, "panic:") || strings.HasPrefix(l, "fatal error:") {
			msg = l
			break
		}
	}
	if msg == "" {
		msg, _, _ = strings.Cut(text, "\n")
	}
	msg = reHex.ReplaceAllString(msg, "N")
	// top library frame
	frame := ""
	lines := strings.Split(text, "\n")
	for _, l := range lines {
		if strings.HasPrefix(l, "github.com/libp2p/go-libp2p-pubsub") && !strings.Contains(l, "verif") {
			frame = l
			if i := strings.LastIndex(frame, "("); i > 0 {
				frame = frame[:i]
			}
			frame = strings.TrimPrefix(frame, "github.com/libp2p/go-libp2p-pubsub")
			frame = strings.Trim(frame, "./")
			break
		}
	}
	return fmt.Sprintf("%s/panic/%s/%s", prop, strings.TrimSpace(frame), trunc(strings.TrimSpace(msg), 120))
}

func (a *agg) addCrash(prop string, seed uint64, stderr string, plan *Plan) {
	a.mu.Lock()
	defer a.mu.Unlock()
	text := stderr
	if i := strings.Index(text, "panic:"); i >= 0 {
		text = text[i:]
	} else if i := strings.Index(text, "fatal error:"); i >= 0 {
		text = text[i:]
	} else {
		a.harness = append(a.harness, fmt.Sprintf("worker died at seed %d without a panic message: %s", seed, tail(stderr, 1500)))
		return
	}
	// cut to the panicking goroutine
	if loc := reGoroutine.FindStringIndex(text); loc != nil {
		rest := text[loc[0]:]
		if j := strings.Index(rest, "\n\n"); j > 0 {
			text = text[:loc[0]] + rest[:j]
		}
	}
	sig := panicSignature(prop, text)
	r := &RunResult{Seed: seed, Prop: prop, Panic: trunc(text, 4000), Plan: plan}
	if plan != nil {
		r.World = plan.World
	}
	r.Violations = []Violation{{Property: prop, Invariant: "crash", Signature: sig, Detail: trunc(text, 3000)}}
	a.results++
	a.bySig[sig]++
	if a.bySig[sig] == 1 || len(a.viol) < 20 {
		a.viol = append(a.viol, r)
	}
}

// ---------------------------------------------------------------------------------------------
// shrinking: delta debugging over plan items; a candidate is kept iff the same signature fails

func runPlan(b *built, plan *Plan, keepLog bool) *RunResult {
	wo := runWorker(b, Job{Prop: plan.Prop, Plan: plan, KeepLog: keepLog}, 2, 5*time.Minute)
	if len(wo.results) > 0 {
		return wo.results[0]
	}
	if wo.crashed {
		text := wo.stderr
		if i := strings.Index(text, "panic:"); i >= 0 {
			text = text[i:]
		}
		if loc := reGoroutine.FindStringIndex(text); loc != nil {
			rest := text[loc[0]:]
			if j := strings.Index(rest, "\n\n"); j > 0 {
				text = text[:loc[0]] + rest[:j]
			}
		}
		sig := panicSignature(plan.Prop, text)
		return &RunResult{Seed: plan.Seed, Prop: plan.Prop, Panic: trunc(text, 4000),
			Violations: []Violation{{Property: plan.Prop, Invariant: "crash", Signature: sig, Detail: trunc(text, 3000)}}}
	}
	return nil
}

func hasSig(r *RunResult, sig string) bool {
	if r == nil {
		return false
	}
	if r.Panic != "" && len(r.Violations) == 0 {
		return panicSignature(r.Prop, r.Panic) == sig
	}
	for _, v := range r.Violations {
		if v.Signature == sig {
			return true
		}
	}
	return false
}

func shrink(b *built, plan *Plan, sig string) *Plan {
	cur := *plan
	items := append([]json.RawMessage(nil), plan.Items...)
	budget := 160
	deadline := time.Now().Add(150 * time.Second)
	if v, err := strconv.Atoi(os.Getenv("VERIF_SHRINK_RUNS")); err == nil && v > 0 {
		budget = v
		deadline = time.Now().Add(time.Duration(v) * time.Second)
	}
	try := func(cand []json.RawMessage) bool {
		if budget <= 0 || time.Now().After(deadline) {
			return false
		}
		budget--
		p := cur
		p.Items = cand
		return hasSig(runPlan(b, &p, false), sig)
	}
	// confirm reproduction first
	if !try(items) {
		fmt.Fprintln(os.Stderr, "vcheck: WARNING the violating plan did not reproduce in a fresh process; keeping it unminimised")
		return plan
	}
	n := 2
	for len(items) >= 2 && budget > 0 {
		chunk := (len(items) + n - 1) / n
		reduced := false
		// parallel evaluation of complements
		type cres struct {
			i  int
			ok bool
		}
		var cands [][]json.RawMessage
		for i := 0; i < len(items); i += chunk {
			end := i + chunk
			if end > len(items) {
				end = len(items)
			}
			c := append(append([]json.RawMessage(nil), items[:i]...), items[end:]...)
			cands = append(cands, c)
		}
		resc := make(chan cres, len(cands))
		sem := make(chan struct{}, 8)
		for i, c := range cands {
			go func(i int, c []json.RawMessage) {
				sem <- struct{}{}
				ok := try(c)
				<-sem
				resc <- cres{i, ok}
			}(i, c)
		}
		best := -1
		for range cands {
			r := <-resc
			if r.ok && (best < 0 || r.i < best) {
				best = r.i
			}
		}
		if best >= 0 {
			items = cands[best]
			if n > 2 {
				n--
			}
			reduced = true
		}
		if !reduced {
			if n >= len(items) {
				break
			}
			n *= 2
			if n > len(items) {
				n = len(items)
			}
		}
	}
	cur.Items = items
	return &cur
}

func slug(s string) string {
	re := regexp.MustCompile(`[^A-Za-z0-9_.-]+`)
	s = re.ReplaceAllString(s, "_")
	if len(s) > 80 {
		h := sha256.Sum256([]byte(s))
		s = s[:60] + "_" + hex.EncodeToString(h[:4])
	}
	return s
}

func gitHead(dir string) string {
	out, err := exec.Command("git", "-C", dir, "rev-parse", "--short", "HEAD").Output()
	if err != nil {
		return ""
	}
	return strings.TrimSpace(string(out))
}

func writeReplay(prop string, r *RunResult, v *Violation, plan *Plan, origLen int) string {
	dir := filepath.Join(verifDir, "replays", prop)
	os.MkdirAll(dir, 0o755)
	path := filepath.Join(dir, fmt.Sprintf("%d-%s.json", r.Seed, slug(v.Signature)))
	rep := map[string]any{
		"property": propOf(prop, v), "check": prop, "invariant": v.Invariant, "signature": v.Signature, "seed": r.Seed,
		"world": r.World, "plan": plan, "original_plan_len": origLen,
		"violation": map[string]any{"step": v.Step, "virtual_time_ns": v.VTimeNs, "detail": v.Detail},
		"digest":    r.Digest, "repo_head": gitHead(repoDir), "toolchain": goBin(),
	}
	b, _ := json.MarshalIndent(rep, "", " ")
	os.WriteFile(path, b, 0o644)
	return path
}

// ---------------------------------------------------------------------------------------------
// replay

func cmdReplay(args []string) int {
	fs := flag.NewFlagSet("replay", flag.ExitOnError)
	showLog := fs.Bool("log", false, "print the event log")
	doShrink := fs.Int("shrink", 0, "minimise the plan further with a budget of N runs and rewrite the file")
	fs.Parse(args)
	if fs.NArg() < 1 {
		fmt.Fprintln(os.Stderr, "usage: vcheck replay [-log] [-shrink N] <file>")
		return 2
	}
	path := fs.Arg(0)
	raw, err := os.ReadFile(path)
	if err != nil {
		fmt.Fprintln(os.Stderr, err)
		return 2
	}
	var rep struct {
		Property  string `json:"property"`
		Check     string `json:"check"`
		Signature string `json:"signature"`
		Seed      uint64 `json:"seed"`
		Plan      *Plan  `json:"plan"`
		Digest    string `json:"digest"`
	}
	if err := json.Unmarshal(raw, &rep); err != nil {
		fmt.Fprintln(os.Stderr, err)
		return 2
	}
	b, err := build()
	if err != nil {
		fmt.Fprintln(os.Stderr, "vcheck: BUILD FAILED:\n", err)
		return 2
	}
	defer b.cleanup()
	if rep.Plan == nil {
		// crash found without a recorded plan: regenerate from the seed
		wo := runWorker(b, Job{Prop: rep.Check, Tier: "quick", Seeds: []uint64{rep.Seed}}, 2, 10*time.Minute)
		a := &agg{probes: map[string]int{}, faults: map[string]int{}, classes: map[string]bool{}, digests: map[string]bool{}, worlds: map[string]int{}, bySig: map[string]int{}}
		a.add(wo.results)
		if wo.crashed {
			a.addCrash(rep.Check, rep.Seed, wo.stderr, nil)
		}
		for _, r := range a.viol {
			if hasSig(r, rep.Signature) {
				fmt.Printf("VIOLATION property=%s replay=%s\n", rep.Property, path)
				fmt.Printf("  reproduced: %s\n", rep.Signature)
				return 1
			}
		}
		fmt.Println("not reproduced on the current tree")
		return 0
	}
	if *doShrink > 0 {
		os.Setenv("VERIF_SHRINK_RUNS", strconv.Itoa(*doShrink))
		before := len(rep.Plan.Items)
		small := shrink(b, rep.Plan, rep.Signature)
		if r2 := runPlan(b, small, false); r2 != nil && hasSig(r2, rep.Signature) {
			var doc map[string]any
			json.Unmarshal(raw, &doc)
			doc["plan"] = small
			doc["digest"] = r2.Digest
			nb, _ := json.MarshalIndent(doc, "", " ")
			os.WriteFile(path, nb, 0o644)
			rep.Plan, rep.Digest = small, r2.Digest
			fmt.Printf("  shrunk: plan items %d -> %d (file rewritten)\n", before, len(small.Items))
		}
	}
	r := runPlan(b, rep.Plan, *showLog)
	if r == nil {
		fmt.Fprintln(os.Stderr, "vcheck: replay run produced no result")
		return 2
	}
	if *showLog && r.Extra != nil {
		if l, ok := r.Extra["log"].([]any); ok {
			for _, x := range l {
				fmt.Println(x)
			}
		}
	}
	if hasSig(r, rep.Signature) {
		fmt.Printf("VIOLATION property=%s replay=%s\n", rep.Property, path)
		for _, v := range r.Violations {
			if v.Signature == rep.Signature {
				fmt.Printf("  reproduced: %s\n  detail: %s\n", v.Signature, trunc(v.Detail, 1500))
				break
			}
		}
		fmt.Printf("  digest: %s (recorded %s) step-exact=%v\n", r.Digest, rep.Digest, r.Digest == rep.Digest)
		return 1
	}
	fmt.Printf("not reproduced on the current tree (violations now: %d)\n", len(r.Violations))
	for _, v := range r.Violations {
		fmt.Printf("  other: %s: %s\n", v.Signature, trunc(v.Detail, 300))
	}
	return 0
}

// ---------------------------------------------------------------------------------------------
// determinism self-test

func cmdSelftest(args []string) int {
	fs := flag.NewFlagSet("selftest", flag.ExitOnError)
	prop := fs.String("prop", "", "property id")
	n := fs.Int("n", 40, "seeds")
	reps := fs.Int("reps", 3, "fresh processes per configuration")
	tier := fs.String("tier", "quick", "tier")
	fs.Parse(args)
	b, err := build()
	if err != nil {
		fmt.Fprintln(os.Stderr, "vcheck: BUILD FAILED:\n", err)
		return 2
	}
	defer b.cleanup()
	var seeds []uint64
	for i := 0; i < *n; i++ {
		seeds = append(seeds, mixSeed(77, *prop, i))
	}
	type key struct {
		seed uint64
	}
	digests := map[uint64]map[string]int{}
	var mu sync.Mutex
	var wg sync.WaitGroup
	sem := make(chan struct{}, runtime.NumCPU())
	procs := 0
	for _, gmp := range []int{1, 4, 16} {
		for rep := 0; rep < *reps; rep++ {
			wg.Add(1)
			procs++
			go func(gmp int) {
				defer wg.Done()
				sem <- struct{}{}
				defer func() { <-sem }()
				rem := seeds
				for len(rem) > 0 {
					wo := runWorker(b, Job{Prop: *prop, Tier: *tier, Seeds: rem}, gmp, 30*time.Minute)
					mu.Lock()
					for _, r := range wo.results {
						if digests[r.Seed] == nil {
							digests[r.Seed] = map[string]int{}
						}
						d := r.Digest
						if r.Panic != "" {
							d = "PANIC"
						}
						digests[r.Seed][d]++
					}
					mu.Unlock()
					if wo.done || wo.nextIdx >= len(rem) {
						break
					}
					rem = rem[wo.nextIdx:]
				}
			}(gmp)
		}
	}
	wg.Wait()
	bad := 0
	for _, s := range seeds {
		if len(digests[s]) != 1 {
			bad++
			fmt.Printf("NONDETERMINISTIC seed=%d digests=%v\n", s, digests[s])
		}
	}
	fmt.Printf("selftest property=%s seeds=%d processes=%d divergent_seeds=%d\n", *prop, len(seeds), procs, bad)
	res := map[string]any{"property": *prop, "seeds": len(seeds), "processes": procs, "gomaxprocs": []int{1, 4, 16}, "divergent_seeds": bad, "when": time.Now().UTC().Format(time.RFC3339)}
	os.MkdirAll(filepath.Join(verifDir, "selftest"), 0o755)
	jb, _ := json.MarshalIndent(res, "", " ")
	os.WriteFile(filepath.Join(verifDir, "selftest", *prop+".json"), jb, 0o644)
	if bad > 0 {
		return 1
	}
	return 0
}

// ---------------------------------------------------------------------------------------------
// evidence

func writeEvidence(prop, tier string, seed uint64, cfg checkCfg, tc tierCfg, a *agg, wall, buildS float64, nviol int, known map[string]bool, skipped int, nw int) {
	level := cfg.Level
	if level == "" {
		level = "exploration"
	}
	distinct := len(a.classes)
	samples := a.samples
	if len(samples) == 0 {
		samples = []any{"(no sample recorded)"}
	}
	var knownList []string
	for k := range known {
		knownList = append(knownList, k)
	}
	sort.Strings(knownList)
	st := map[string]any{}
	if b, err := os.ReadFile(filepath.Join(verifDir, "selftest", prop+".json")); err == nil {
		json.Unmarshal(b, &st)
	}
	cov := map[string]any{
		"evaluations":            a.results,
		"distinct_nontrivial":    distinct,
		"rule":                   cfg.Rule,
		"samples":                samples,
		"distinct_event_digests": len(a.digests),
		"nontrivial_runs":        a.nontrivial,
		"runs_per_hour":          int(float64(a.results) / wall * 3600),
		"simulated_time_s":       float64(a.vtime) / 1e9,
		"scheduler_steps":        a.steps,
		"faults_fired":           a.faults,
		"probes":                 a.probes,
		"worlds":                 a.worlds,
		"runs_skipped_by_budget": skipped,
		"runs_hit_step_cap":      a.overflow,
		"workers":                nw,
		"build_s":                buildS,
		"real_components":        cfg.Real,
		"stubbed_components":     cfg.Stub,
		"known_findings_seen":    knownList,
		"determinism_selftest":   st,
		"repo_head":              gitHead(repoDir),
	}
	ev := map[string]any{
		"property_id": prop, "tier": tier, "seed": int64(seed & 0x7fffffffffffffff), "level": level,
		"coverage": cov, "assumptions": cfg.Assumptions, "wall_s": wall, "violations": nviol,
	}
	os.MkdirAll(filepath.Join(verifDir, "evidence"), 0o755)
	b, _ := json.MarshalIndent(ev, "", " ")
	os.WriteFile(filepath.Join(verifDir, "evidence", prop+".json"), b, 0o644)
}
