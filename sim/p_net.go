package pubsub

// Properties decided in W-NET (several real nodes):
//   C01 — complete exactly-once delivery in a connected network of correct nodes
//   C05 — interest announcements converge to the true subscription state
//   C18 — the peer-event stream of a topic reproduces the topic's peer set

import (
	"fmt"
	"sort"
	"strings"
	"time"

	pb "github.com/libp2p/go-libp2p-pubsub/pb"
	"github.com/libp2p/go-libp2p/core/peer"
)

func init() {
	registerProp("C01", func(seed uint64, tier string) *Plan { return genNet(seed, tier, "C01") }, map[string]func(*sim){"net": runNet})
	registerProp("C05", func(seed uint64, tier string) *Plan { return genNet(seed, tier, "C05") }, map[string]func(*sim){"net": runNet})
	registerProp("C18", genC18, map[string]func(*sim){"net": runNet, "node": runC18Node})
}

// ---------------------------------------------------------------------------------------------
// generation

type netGen struct {
	r       *prng
	p       *Plan
	n       int
	nt      int
	routers string
	caps    []int
	deg     []int
	edges   map[[2]int]bool
	resets  map[[2]int]int
	nsub    [][]int // live subscriptions per node per topic (generator's own bookkeeping)
	nrel    [][]int
	nevh    int
}

func (g *netGen) add(op string, a ...int64) { g.p.Items = append(g.p.Items, Item{Op: op, A: a}) }

func genNet(seed uint64, tier string, prop string) *Plan {
	r := newPrng(seed, "net-"+prop)
	p := &Plan{World: "net", Knobs: map[string]float64{}, SK: map[string]string{}}
	g := &netGen{r: r, p: p, edges: map[[2]int]bool{}, resets: map[[2]int]int{}}
	maxN := 6
	if tier == "thorough" {
		maxN = 8
	}
	g.n = r.rng(2, maxN)
	if r.chance(0.5) {
		g.n = r.rng(2, 4)
	}
	g.nt = r.rng(1, 2)
	// "wide hub" (C01 only, one run in sixteen): 4 or 5 meshed pairs, each joined to one node of
	// a further pair by a link that carries gossip only, so that this node serves the same message
	// to 4..5 lazy requesters that have no other route
	wideK := 0
	if prop == "C01" && r.chance(0.06) {
		wideK = r.rng(4, 5)
		g.n = 2 + 2*wideK
		g.nt = 1
	}
	p.Knobs["ntopics"] = float64(g.nt)
	// routers
	rs := make([]byte, g.n)
	switch x := r.f(); {
	case x < 0.45:
		for i := range rs {
			rs[i] = 'g'
		}
	case x < 0.57:
		for i := range rs {
			rs[i] = 'f'
		}
	case x < 0.69:
		for i := range rs {
			rs[i] = 'r'
		}
	default:
		for i := range rs {
			rs[i] = "ggfr"[r.intn(4)]
		}
	}
	if wideK > 0 {
		for i := range rs {
			rs[i] = 'g'
		}
	}
	g.routers = string(rs)
	p.SK["routers"] = g.routers
	// gossipsub degrees
	dlo := r.rng(1, 3)
	d := r.rng(maxi(2, dlo), dlo+2)
	dhi := r.rng(d, d+3)
	dlazy := r.rng(0, 3)
	dout := 0
	if r.chance(0.5) {
		for dout+1 < dlo && dout+1 < d/2 {
			dout++
		}
	}
	if wideK > 0 {
		dlo, d, dhi, dlazy, dout = 1, 2, wideK+2+r.rng(0, 2), wideK+r.rng(0, 2), 0
	}
	p.Knobs["D"], p.Knobs["Dlo"], p.Knobs["Dhi"], p.Knobs["Dlazy"], p.Knobs["Dout"] = float64(d), float64(dlo), float64(dhi), float64(dlazy), float64(dout)
	p.Knobs["Dscore"] = float64(r.rng(0, d))
	p.Knobs["hb_ms"] = float64([]int{700, 1000, 1000}[r.intn(3)])
	p.Knobs["hb_init_ms"] = float64(r.rng(50, 400))
	p.Knobs["prune_backoff_s"] = float64([]int{5, 10, 60}[r.intn(3)])
	p.Knobs["unsub_backoff_s"] = float64([]int{2, 10}[r.intn(2)])
	p.Knobs["flood_publish"] = float64(r.intn(2))
	p.Knobs["fanout_ttl_s"] = float64([]int{5, 60}[r.intn(2)])
	p.Knobs["gossip_factor"] = []float64{0.25, 0.25, 0.5}[r.intn(3)]
	p.SK["sign"] = []string{"strict", "strict", "strict", "strictnosign", "laxsign", "laxnosign"}[r.intn(6)]
	p.Knobs["val_mode"] = float64(r.intn(3))
	p.Knobs["rsub_d"] = float64([]int{1, 2, 3, 6}[r.intn(4)])
	p.Knobs["rsub_size"] = float64([]int{1, 4, 16}[r.intn(3)])
	p.Knobs["key_types"] = float64(r.intn(256))
	p.Knobs["lat_min_us"] = float64([]int{100, 200, 1000}[r.intn(3)])
	p.Knobs["lat_jit_us"] = float64([]int{0, 500, 3000, 20000}[r.intn(4)])
	p.Knobs["queue_size"] = 32
	if prop != "C01" {
		p.Knobs["queue_size"] = float64([]int{1, 2, 4, 32}[r.intn(4)])
	}
	g.nsub = make([][]int, g.n)
	g.nrel = make([][]int, g.n)
	for i := range g.nsub {
		g.nsub[i] = make([]int, g.nt)
		g.nrel[i] = make([]int, g.nt)
	}
	// degree caps inside which the random peer selections are exhaustive
	gsB := dlo + dlazy
	if dhi-1 < gsB {
		gsB = dhi - 1 // see netWorld.classify
	}
	nocap := prop != "C01" || r.chance(0.12)
	g.caps = make([]int, g.n)
	g.deg = make([]int, g.n)
	for i := range g.caps {
		switch {
		case nocap || rs[i] == 'f':
			g.caps[i] = 99
		case rs[i] == 'g':
			g.caps[i] = gsB
		default:
			g.caps[i] = p.ki("rsub_d", 6)
		}
	}
	if prop == "C05" && r.chance(0.15) {
		var fo []string
		for i := 0; i < g.n; i++ {
			for t := 0; t < g.nt; t++ {
				if r.chance(0.25) {
					fo = append(fo, fmt.Sprintf("%d|t%d", i, t))
				}
			}
		}
		p.SK["fanout_only"] = strings.Join(fo, ",")
	}
	if prop == "C01" && r.chance(0.2) {
		// a small message size limit: some publications fill a frame exactly
		p.Knobs["max_msg_size"] = float64(r.rng(120, 400))
		p.SK["sign"] = "strictnosign"
	}
	if prop == "C01" && r.chance(0.35) {
		// short gossip windows: a message is advertised in 1 or 2 heartbeats only
		hg := r.rng(1, 2)
		p.Knobs["history_gossip"] = float64(hg)
		// (at least one slot more than the gossip window: Shift runs in the heartbeat that sends the
		// last advertisement, so with HistoryLength == HistoryGossip the message is gone from the
		// cache before the IWANT it provoked arrives -- an observation in DESIGN.md, not a C01 case)
		p.Knobs["history_len"] = float64(hg + r.rng(1, 3))
	}
	switch {
	case wideK > 0:
		g.genWideHub(wideK)
		return p
	}
	switch prop {
	case "C01":
		g.genC01()
	case "C05":
		g.genC05()
	case "C18":
		g.genC18()
	}
	return p
}

func (g *netGen) smallAdv() {
	r := g.r
	switch r.intn(4) {
	case 0:
	case 1:
		g.add("advus", int64(r.rng(1, 3000)))
	case 2:
		g.add("adv", int64(r.rng(1, 50)))
	default:
		g.add("adv", int64(r.rng(50, 2500)))
	}
}

func (g *netGen) connect(a, b int) bool {
	k := pairKey(a, b)
	if a == b || g.edges[k] {
		return false
	}
	g.edges[k] = true
	g.deg[a]++
	g.deg[b]++
	if g.r.chance(0.5) {
		a, b = b, a
	}
	g.add("conn", int64(a), int64(b))
	return true
}

func (g *netGen) disconnect(a, b int) {
	k := pairKey(a, b)
	if !g.edges[k] {
		return
	}
	delete(g.edges, k)
	g.deg[a]--
	g.deg[b]--
	g.add("disc", int64(a), int64(b))
}

// topology: a random spanning tree plus extra edges, inside the degree caps where possible
func (g *netGen) genTopology(extra float64) {
	r := g.r
	order := r.perm(g.n)
	for k := 1; k < g.n; k++ {
		x := order[k]
		var cand []int
		for _, y := range order[:k] {
			if g.deg[y] < g.caps[y] {
				cand = append(cand, y)
			}
		}
		if len(cand) == 0 {
			cand = order[:k]
		}
		g.connect(x, cand[r.intn(len(cand))])
		if r.chance(0.3) {
			g.smallAdv()
		}
	}
	for a := 0; a < g.n; a++ {
		for b := a + 1; b < g.n; b++ {
			if !g.edges[pairKey(a, b)] && g.deg[a] < g.caps[a] && g.deg[b] < g.caps[b] && r.chance(extra) {
				g.connect(a, b)
			}
		}
	}
}

func (g *netGen) sub(i, t int, lazy bool) {
	// Small buffers only for consumers that are not running: a running consumer races with the
	// event loop when several messages arrive in one RPC (the library drops for slow subscribers by
	// design, and which side wins is the Go scheduler's choice, not the simulator's).
	buf := 0
	if lazy {
		buf = g.r.rng(1, 4)
	}
	l := int64(0)
	if lazy {
		l = 1
	}
	g.add("sub", int64(i), int64(t), l, int64(buf))
	g.nsub[i][t]++
}

func (g *netGen) totalSubs(i int) int {
	n := 0
	for _, c := range g.nsub[i] {
		n += c
	}
	return n
}

func (g *netGen) genRoles() {
	r := g.r
	for t := 0; t < g.nt; t++ {
		any := false
		for i := 0; i < g.n; i++ {
			switch x := r.f(); {
			case x < 0.68:
				g.sub(i, t, false)
				any = true
				if r.chance(0.15) {
					g.sub(i, t, false)
				}
				if r.chance(0.1) {
					g.add("relay", int64(i), int64(t))
					g.nrel[i][t]++
				}
			case x < 0.87:
				g.add("relay", int64(i), int64(t))
				g.nrel[i][t]++
			}
			if r.chance(0.3) {
				g.smallAdv()
			}
		}
		if !any {
			g.sub(r.intn(g.n), t, false)
		}
	}
}

// churnOp emits one random topology / interest / fault operation.
func (g *netGen) churnOp(faults bool, lazyOK bool) {
	r := g.r
	i, t := r.intn(g.n), r.intn(g.nt)
	switch x := r.intn(12); {
	case x == 0 || x == 1:
		g.sub(i, t, lazyOK && r.chance(0.25))
	case x == 2 || x == 3:
		if g.totalSubs(i) > 0 {
			k := r.intn(8)
			g.add("cancel", int64(i), int64(k))
			// the generator does not know which topic the k-th live subscription belongs to; it only
			// needs an upper bound of live subscriptions
			for tt := range g.nsub[i] {
				if g.nsub[i][tt] > 0 {
					g.nsub[i][tt]--
					break
				}
			}
		} else {
			g.sub(i, t, false)
		}
	case x == 4:
		g.add("relay", int64(i), int64(t))
		g.nrel[i][t]++
	case x == 5:
		if g.nrel[i][t] > 0 {
			g.nrel[i][t]--
			g.add("unrelay", int64(i), int64(t), int64([]int{0, 0, 0, 1, 1, 2}[r.intn(6)]))
		} else {
			g.add("relay", int64(i), int64(t))
			g.nrel[i][t]++
		}
	case x == 6:
		// add an edge inside the caps
		for try := 0; try < 6; try++ {
			a, b := r.intn(g.n), r.intn(g.n)
			if a != b && !g.edges[pairKey(a, b)] && g.deg[a] < g.caps[a] && g.deg[b] < g.caps[b] {
				g.connect(a, b)
				break
			}
		}
	case x == 7:
		// drop an edge and (mostly) bring it or another one back
		var es [][2]int
		for e := range g.edges {
			es = append(es, e)
		}
		if len(es) == 0 {
			return
		}
		sort.Slice(es, func(a, b int) bool { return es[a][0]*100+es[a][1] < es[b][0]*100+es[b][1] })
		e := es[r.intn(len(es))]
		g.disconnect(e[0], e[1])
		g.smallAdv()
		if r.chance(0.75) {
			g.connect(e[0], e[1])
		}
	case x == 8 && faults:
		a, b := g.randomEdge()
		if a >= 0 && g.resets[[2]int{a, b}] < 3 {
			g.resets[[2]int{a, b}]++
			g.add("reset", int64(a), int64(b), int64(bint(r.chance(0.4))))
		}
	case x == 9 && faults:
		a, b := g.randomEdge()
		if a >= 0 {
			if r.chance(0.4) {
				// a slow link instead: one frame per interval, so that the queue drains bit by bit
				g.add("slow", int64(a), int64(b), int64(r.rng(50, 600)), int64(r.rng(1000, 8000)))
			} else {
				g.add("stall", int64(a), int64(b), int64(r.rng(100, 4000)))
			}
			// a burst of interest changes while the link is stalled: announcements hit a full queue
			for k := r.rng(0, 5); k > 0; k-- {
				if r.chance(0.5) {
					g.sub(a, r.intn(g.nt), false)
				} else if g.totalSubs(a) > 0 {
					g.add("cancel", int64(a), int64(r.intn(8)))
					for tt := range g.nsub[a] {
						if g.nsub[a][tt] > 0 {
							g.nsub[a][tt]--
							break
						}
					}
				}
				if r.chance(0.3) {
					g.add("pub", int64(a), int64(r.intn(g.nt)), int64(r.rng(8, 64)))
				}
			}
		}
	case x == 10:
		if r.chance(0.5) {
			g.add("tclose", int64(i), int64(t), int64(bint(faults && r.chance(0.3))))
		} else {
			g.add("recancel", int64(i), int64(r.intn(4)))
		}
	default:
		g.add("pub", int64(r.intn(g.n)), int64(t), int64(r.rng(8, 200)))
	}
}

func bint(b bool) int {
	if b {
		return 1
	}
	return 0
}

func (g *netGen) randomEdge() (int, int) {
	var es [][2]int
	for e := range g.edges {
		es = append(es, e)
	}
	if len(es) == 0 {
		return -1, -1
	}
	sort.Slice(es, func(a, b int) bool { return es[a][0]*100+es[a][1] < es[b][0]*100+es[b][1] })
	e := es[g.r.intn(len(es))]
	if g.r.chance(0.5) {
		return e[1], e[0]
	}
	return e[0], e[1]
}

// genIslands: two groups whose meshes are already saturated (every member has Dlo mesh links
// inside its group) are then joined by a bridge: nobody grafts over the bridge, so traffic between
// the groups depends on IHAVE/IWANT gossip alone.
func (g *netGen) genIslands() bool {
	r := g.r
	dlo, dlazy, dhi := g.p.ki("Dlo", 1), g.p.ki("Dlazy", 1), g.p.ki("Dhi", 2)
	gs := dlo + 1
	if g.n < 2*gs || dlazy < 1 || dhi-1 < dlo+1 || strings.Trim(g.routers, "g") != "" {
		return false
	}
	for i := 0; i < g.n; i++ {
		g.sub(i, 0, false)
	}
	groups := [][]int{{}, {}}
	for i := 0; i < 2*gs; i++ {
		groups[i/gs] = append(groups[i/gs], i)
	}
	for _, grp := range groups {
		for x := 0; x < len(grp); x++ {
			for y := x + 1; y < len(grp); y++ {
				g.connect(grp[x], grp[y])
			}
		}
	}
	g.add("adv", int64(r.rng(3000, 6000)))
	g.connect(groups[0][r.intn(gs)], groups[1][r.intn(gs)])
	// the remaining nodes hang off somebody with spare capacity
	for i := 2 * gs; i < g.n; i++ {
		var cand []int
		for y := 0; y < i; y++ {
			if g.deg[y] < g.caps[y] {
				cand = append(cand, y)
			}
		}
		if len(cand) > 0 {
			g.connect(i, cand[r.intn(len(cand))])
		}
	}
	return true
}

// genWideHub: pairs (2j, 2j+1) mesh with each other (Dlo = 1: their meshes are full); later node 0
// is joined to one node of every other pair. Nobody grafts over the new links, which carry gossip
// only; node 0 has k lazy peers that depend on it.
func (g *netGen) genWideHub(k int) {
	r := g.r
	for i := 0; i < g.n; i++ {
		g.sub(i, 0, false)
	}
	for j := 0; j <= k; j++ {
		g.connect(2*j, 2*j+1)
	}
	g.add("adv", int64(r.rng(3000, 6000)))
	for j := 1; j <= k; j++ {
		g.connect(0, 2*j+r.intn(2))
	}
	g.add("settle", int64(r.rng(0, 1500)))
	for round := r.rng(1, 2); round > 0; round-- {
		for n := r.rng(1, 3); n > 0; n-- {
			pubr := r.intn(g.n)
			if r.chance(0.5) {
				pubr = r.intn(2) // the hub's own pair: every other pair has to pull the message from the hub
			}
			g.add("pub", int64(pubr), 0, int64(r.rng(8, 300)))
			if r.chance(0.6) {
				g.add("advus", int64(r.rng(1, 30000)))
			}
		}
		g.add("deliver")
		g.add("check")
	}
}

func (g *netGen) genC01() {
	r := g.r
	if r.chance(0.5) && g.genIslands() {
		// several rounds over the gossip-only bridge, sometimes with a small per-heartbeat IHAVE/IWANT
		// budget (never more publications per round than the budget admits in one heartbeat)
		per := 4
		if r.chance(0.5) {
			per = r.rng(2, 4)
			g.p.Knobs["max_ihave_len"] = float64(per)
		}
		g.add("settle", int64(r.rng(0, 1500)))
		burst := 0
		// (not together with a small frame limit: the advertisement of a burst is then cut into more
		// IHAVE messages than a peer accepts per heartbeat, MaxIHaveMessages - a protocol budget)
		_, smallFrames := g.p.Knobs["max_msg_size"]
		if _, small := g.p.Knobs["max_ihave_len"]; !small && !smallFrames && r.chance(0.3) {
			burst = r.rng(11, 30) // more IDs in one advertisement than the per-heartbeat IHAVE message budget
			// (the reply to one IWANT for all of them may be cut into as many frames: room for them
			// in the outbound queue, whose overflow is a documented loss and not a C01 case)
			g.p.Knobs["queue_size"] = 256
		}
		for round := r.rng(1, 3); round > 0; round-- {
			for k := r.rng(1, per) + burst; k > 0; k-- {
				g.add("pub", int64(r.intn(g.n)), 0, int64(r.rng(8, 300)))
				if r.chance(0.6) {
					g.add("advus", int64(r.rng(1, 30000)))
				}
			}
			g.add("deliver")
			g.add("check")
		}
		return
	}
	// bring-up: topology and roles in either order
	if r.chance(0.5) {
		g.genTopology(0.4)
		g.genRoles()
	} else {
		g.genRoles()
		g.genTopology(0.4)
	}
	rounds := 1
	if r.chance(0.45) {
		rounds = 2
	}
	for round := 0; round < rounds; round++ {
		nch := 0
		if round > 0 || r.chance(0.6) {
			nch = r.rng(1, 8)
		}
		for k := 0; k < nch; k++ {
			// C01 names subscribe / unsubscribe / connect / disconnect churn only: no stream resets, no stalls
			g.churnOp(false, false)
			g.smallAdv()
		}
		g.add("settle", int64(r.rng(0, 1500)))
		for k := r.rng(1, 5); k > 0; k-- {
			g.add("pub", int64(r.intn(g.n)), int64(r.intn(g.nt)), int64(r.rng(8, 300)), 0, int64([]int{0, 0, 0, 0, 1, 2, 3}[r.intn(7)]))
			if r.chance(0.6) {
				g.add("advus", int64(r.rng(1, 30000)))
			}
		}
		g.add("deliver")
		g.add("check")
	}
}

func (g *netGen) genC05() {
	r := g.r
	if r.chance(0.25) {
		g.p.Knobs["net_score"] = 1
	}
	if r.chance(0.2) {
		g.p.Knobs["sub_limit"] = float64(g.nt + r.intn(2))
	}
	if r.chance(0.3) {
		// inbound stream handlers that are slow to report a closed stream
		g.p.Knobs["inbound_exit_delay_us"] = float64([]int{50, 2000, 30000}[r.intn(3)])
	}
	if r.chance(0.6) {
		g.genTopology(0.5)
	}
	rounds := r.rng(1, 3)
	for round := 0; round < rounds; round++ {
		if r.chance(0.08) {
			// a link that flaps: whole-peer disconnects and reconnects, then one transient stream reset
			if a, b := g.randomEdge(); a >= 0 {
				for k := r.rng(4, 6); k > 0; k-- {
					g.disconnect(a, b)
					g.add("adv", int64(r.rng(150, 600)))
					g.connect(a, b)
					g.add("adv", int64(r.rng(10, 400)))
				}
				if r.chance(0.5) {
					a, b = b, a
				}
				if g.resets[[2]int{a, b}] < 3 {
					g.resets[[2]int{a, b}]++
					g.add("reset", int64(a), int64(b), int64(bint(r.chance(0.4))))
				}
			}
		}
		if r.chance(0.1) && g.n >= 3 {
			// two peers arrive at a busy node, one of them leaves before the node gets to them
			pm := r.perm(g.n)
			i, a, b := pm[0], pm[1], pm[2]
			if !g.edges[pairKey(i, a)] && !g.edges[pairKey(i, b)] && g.deg[i] < g.caps[i] && g.deg[b] < g.caps[b] {
				g.add("connburst", int64(i), int64(a), int64(b))
				g.edges[pairKey(i, b)] = true
				g.deg[i]++
				g.deg[b]++
				g.smallAdv()
			}
		}
		if r.chance(0.06) {
			// announcements dropped at a full queue are still waiting for their retry when the
			// application closes the topic and joins it again with the other FanoutOnly setting
			var cand []int
			for i := 0; i < g.n; i++ {
				if g.totalSubs(i) == 0 {
					cand = append(cand, i)
				}
			}
			if a, b := g.randomEdge(); a >= 0 && len(cand) > 0 {
				i := cand[r.intn(len(cand))]
				j := -1
				for _, e := range [][2]int{{a, b}, {b, a}} {
					if e[0] == i {
						j = e[1]
					}
				}
				if j < 0 {
					for y := 0; y < g.n; y++ {
						if g.edges[pairKey(i, y)] {
							j = y
						}
					}
				}
				if j >= 0 {
					t := r.intn(g.nt)
					g.add("stall", int64(i), int64(j), int64(r.rng(1500, 4000)))
					for k := r.rng(1, 6); k > 0; k-- {
						g.add("sub", int64(i), int64(t), 0, 0)
						g.add("cancel", int64(i), 0)
						if r.chance(0.3) {
							g.add("advus", int64(r.rng(1, 3000)))
						}
					}
					g.add("tclose", int64(i), int64(t), 1)
					if r.chance(0.8) {
						g.sub(i, t, false)
					}
				}
			}
		}
		if r.chance(0.05) {
			// four transient stream losses (all answered by a respawn), a pause just longer than the
			// period after which the library forgets them, then a fifth
			if a, b := g.randomEdge(); a >= 0 && g.resets[[2]int{a, b}] == 0 && g.resets[[2]int{b, a}] == 0 {
				g.add("adv", int64(r.rng(1500, 4000)))
				for k := 0; k < 4; k++ {
					g.add("reset", int64(a), int64(b), 0)
					g.add("adv", int64(r.rng(1500, 4000)))
				}
				g.add("adv", int64(r.rng(601000, 661000)))
				g.add("reset", int64(a), int64(b), int64(bint(r.chance(0.4))))
				g.resets[[2]int{a, b}] = 3
				g.resets[[2]int{b, a}] = 3
			}
		}
		for k := r.rng(2, 14); k > 0; k-- {
			if g.p.Knobs["net_score"] == 1 && r.chance(0.15) {
				// the score falls (or recovers) first, interest changes afterwards
				g.add("score", int64(r.intn(g.n)), int64(r.intn(g.n)), int64([]int{-100, -100, -15, 0}[r.intn(4)]))
				g.smallAdv()
			}
			g.churnOp(true, true)
			g.smallAdv()
		}
		g.add("quiet")
		g.add("check")
	}
}

func (g *netGen) genC18() {
	r := g.r
	g.p.Knobs["queue_size"] = 32
	if r.chance(0.7) {
		g.genTopology(0.6)
	}
	evOp := func() {
		switch x := r.intn(10); {
		case x < 2 || g.nevh == 0:
			if a, b := g.randomEdge(); a >= 0 && r.chance(0.3) {
				if r.chance(0.5) {
					a, b = b, a
				}
				t := r.intn(g.nt)
				g.add("evhrace", int64(a), int64(t), int64(b))
				g.nsub[b][t]++
			} else {
				g.add("evh", int64(r.intn(g.n)), int64(r.intn(g.nt)))
			}
			g.nevh++
		case x < 6:
			g.add("evnext", int64(r.intn(g.nevh)))
		case x < 7:
			g.add("evpolldead", int64(r.intn(g.nevh)))
		case x < 9:
			g.add("evnextcancel", int64(r.intn(g.nevh)))
		default:
			g.add("evstop", int64(r.intn(g.nevh)))
		}
	}
	rounds := r.rng(1, 3)
	for round := 0; round < rounds; round++ {
		for k := r.rng(3, 16); k > 0; k-- {
			if r.chance(0.45) {
				evOp()
			} else {
				g.churnOp(r.chance(0.5), false)
			}
			switch r.intn(3) {
			case 0:
			case 1:
				g.add("advus", int64(r.rng(1, 5000)))
			default:
				g.smallAdv()
			}
		}
		g.add("quiet")
		g.add("check")
	}
}

// ---------------------------------------------------------------------------------------------
// run

func runNet(s *sim) {
	s.scheduleWriters()
	defer func() { verifYieldQueueFn = nil; verifYieldFn = nil }()
	w := newNetWorld(s)
	if !w.start() {
		return
	}
	prop := s.plan.Prop
	hb := w.gp.HeartbeatInterval
	deliverNeed := time.Duration(len(w.nodes)+3)*hb + time.Second
	quietNeed := 6 * time.Second
	w.extraOps["deliver"] = func(it Item) { s.advance(deliverNeed) }
	w.extraOps["quiet"] = func(it Item) {
		// let pending stalls end first, then leave the network alone
		if d := w.lastChurn - s.now(); d > 0 {
			s.advance(d)
		}
		s.advance(quietNeed)
	}
	w.extraOps["check"] = func(it Item) {
		switch prop {
		case "C01":
			w.checkC01(deliverNeed)
		case "C05":
			if s.now()-w.lastChurn >= quietNeed {
				w.checkC05()
			}
		case "C18":
			if s.now()-w.lastChurn >= quietNeed {
				w.checkC18(true)
			}
		}
	}
	w.run(s.plan.Items)
	if !s.stopped {
		switch prop {
		case "C01":
			w.checkC01(deliverNeed)
		case "C18":
			w.checkC18(false)
		case "C05":
			w.checkCancelled()
		}
	}
	w.cancelAllNext()
	// distinct-case measure: routers, size, edges and the shape of the history
	ops := map[string]int{}
	for _, it := range s.plan.Items {
		ops[it.Op]++
	}
	s.class = fmt.Sprintf("%s|t%d|e%d|%s", s.plan.ks("routers", ""), len(w.topics), len(w.conn), opShape(ops))
	s.teardown()
}

func opShape(ops map[string]int) string {
	var ks []string
	for k := range ops {
		ks = append(ks, k)
	}
	sort.Strings(ks)
	var b strings.Builder
	for _, k := range ks {
		fmt.Fprintf(&b, "%s%d,", k, ops[k])
	}
	return b.String()
}

// ---------------------------------------------------------------------------------------------
// C01

func (w *netWorld) checkC01(deliverNeed time.Duration) {
	s := w.s
	now := s.now()
	// what every subscription has received so far
	type key struct {
		node, sub int
	}
	got := map[key]map[string]int{}
	for i, n := range w.nodes {
		n.mu.Lock()
		subs := append([]*simSub(nil), n.subs...)
		n.mu.Unlock()
		for _, ss := range subs {
			if ss.lazy {
				continue
			}
			m := map[string]int{}
			for _, msg := range ss.messages() {
				d := string(msg.GetData())
				m[d]++
				pb := w.payloads[d]
				if pb == nil || pb.topic != msg.GetTopic() || ss.topic != msg.GetTopic() {
					s.violate("C01", "no-phantom", "C01/phantom", "N%d sub%d (%s) received a message that was never published: topic=%s data=%q", i, ss.id, ss.topic, msg.GetTopic(), trunc(d, 40))
					continue
				}
				if m[d] == 2 {
					s.violate("C01", "at-most-once", "C01/duplicate/"+w.router[i], "N%d (%s) sub%d received publication #%d (by N%d on %s) more than once", i, w.router[i], ss.id, pb.seq, pb.node, pb.topic)
				}
			}
			got[key{i, ss.id}] = m
		}
	}
	for _, pb := range w.pubs {
		if pb.checked {
			continue
		}
		if now-pb.at < deliverNeed {
			continue
		}
		pb.checked = true
		if !pb.eligible || pb.disturbed {
			s.probe("c01_pub_exempt")
			if pb.disturbed {
				s.probe("c01_exempt: churn before check")
			} else {
				s.probe("c01_exempt: " + strings.Split(pb.why, " of ")[0])
			}
			continue
		}
		s.probe("c01_pub_checked")
		s.nontrivial = true
		if e := pb.result(s); e != "" {
			s.violate("C01", "publish-succeeds", "C01/publish-error", "N%d (%s) could not publish #%d on %s in a settled, connected network: %s", pb.node, w.router[pb.node], pb.seq, pb.topic, e)
			continue
		}
		var nodes []int
		for j := range pb.expect {
			nodes = append(nodes, j)
		}
		sort.Ints(nodes)
		for _, j := range nodes {
			for _, sid := range pb.expect[j] {
				m := got[key{j, sid}]
				if m == nil {
					continue // lazy
				}
				if m[pb.data] == 0 {
					role := "remote"
					if j == pb.node {
						role = "own"
					}
					sig := fmt.Sprintf("C01/missing/%s/%s", w.router[j], role)
					extra := ""
					if x, p := w.staleMeshMember(pb.topic); x >= 0 {
						// (classification of a recorded finding, see KNOWN_FINDINGS.json: some node keeps a
						// peer in its mesh that has left the topic; the slot it occupies makes the node
						// prune real subscribers, whose meshes then never settle)
						sig = "C01/missing/stale-mesh-member"
						extra = fmt.Sprintf("; N%d holds %s in its mesh of %s although that peer is not in the topic", x, w.nameOf(string(p)), pb.topic)
					}
					s.violate("C01", "complete", sig,
						"publication #%d by N%d (%s) on %s at %v never reached N%d (%s) sub%d within %v; routers=%s edges=%s%s", pb.seq, pb.node, w.router[pb.node], pb.topic, pb.at, j, w.router[j], sid, now-pb.at, w.plan.ks("routers", ""), w.edgeList(), extra)
				} else {
					s.probe("c01_delivery_confirmed")
				}
			}
		}
	}
}

// staleMeshMember: a gossipsub node whose mesh of the topic contains a peer that is not (any
// more) in the topic as that node knows it. Read from the nodes at quiescence; used only to tell a
// recorded finding from other causes of a missing delivery, never by the oracle itself.
func (w *netWorld) staleMeshMember(topic string) (int, peer.ID) {
	for i, n := range w.nodes {
		gs, ok := n.ps.rt.(*GossipSubRouter)
		if !ok {
			continue
		}
		var ids []string
		for p := range gs.mesh[topic] {
			if _, in := n.ps.topics[topic][p]; !in {
				ids = append(ids, string(p))
			}
		}
		if len(ids) > 0 {
			sort.Strings(ids)
			return i, peer.ID(ids[0])
		}
	}
	return -1, ""
}

func (w *netWorld) edgeList() string {
	var es []string
	for e := range w.conn {
		es = append(es, fmt.Sprintf("%d-%d", e[0], e[1]))
	}
	sort.Strings(es)
	return strings.Join(es, ",")
}

func trunc(s string, n int) string {
	if len(s) > n {
		return s[:n] + "…"
	}
	return s
}

// ---------------------------------------------------------------------------------------------
// C05

func (w *netWorld) checkC05() {
	s := w.s
	s.nontrivial = true
	for i, n := range w.nodes {
		for _, t := range w.topics {
			var want []string
			for j := range w.nodes {
				if w.connected(i, j) && w.interested(j, t) {
					want = append(want, string(w.nodes[j].h.id))
				}
			}
			sort.Strings(want)
			have := w.listPeers(i, t)
			s.probe("c05_listpeers_checked")
			if len(want) > 0 {
				s.probe("c05_nonempty_peer_set")
			}
			hs, ws := map[string]bool{}, map[string]bool{}
			for _, p := range have {
				hs[p] = true
			}
			for _, p := range want {
				ws[p] = true
			}
			for _, p := range want {
				if !hs[p] {
					s.violate("C05", "converges", "C05/listpeers/missing", "quiet network: N%d (%s) does not list %s in %s although it is connected and holds a subscription or relay reference; lists %s, expected %s", i, w.router[i], w.nameOf(p), t, w.names(have), w.names(want))
					break
				}
			}
			for _, p := range have {
				if !ws[p] {
					why := "holds no subscription or relay reference"
					if j := w.indexOf(p); j >= 0 && !w.connected(i, j) {
						why = "is not connected"
					}
					s.violate("C05", "converges", "C05/listpeers/stale", "quiet network: N%d (%s) lists %s in %s although it %s; lists %s, expected %s", i, w.router[i], w.nameOf(p), t, why, w.names(have), w.names(want))
					break
				}
			}
			// the topic handle reports the same set
			n.mu.Lock()
			tp := n.topics[t]
			n.mu.Unlock()
			if tp != nil {
				var th []string
				c := s.do(fmt.Sprintf("Topic.ListPeers N%d %s", i, t), func() any {
					for _, p := range tp.ListPeers() {
						th = append(th, string(p))
					}
					return len(th)
				})
				sort.Strings(th)
				if c.isDone(s) && strings.Join(th, "|") != strings.Join(have, "|") {
					s.violate("C05", "converges", "C05/topic-listpeers-differs", "N%d: Topic.ListPeers(%s)=%s but PubSub.ListPeers=%s", i, t, w.names(th), w.names(have))
				}
			}
		}
		// GetTopics: exactly the topics with a live subscription
		var wantT []string
		for _, t := range w.topics {
			if len(w.liveSubs(i, t)) > 0 {
				wantT = append(wantT, t)
			}
		}
		var haveT []string
		c := s.do(fmt.Sprintf("GetTopics N%d", i), func() any { haveT = n.ps.GetTopics(); return len(haveT) })
		sort.Strings(haveT)
		if c.isDone(s) && strings.Join(haveT, ",") != strings.Join(wantT, ",") {
			s.violate("C05", "local-interest", "C05/gettopics", "N%d: GetTopics=%v but live subscriptions exist exactly for %v", i, haveT, wantT)
		}
	}
	w.checkCancelled()
}

func (w *netWorld) indexOf(p string) int {
	for i, n := range w.nodes {
		if string(n.h.id) == p {
			return i
		}
	}
	return -1
}

// checkCancelled: a cancelled subscription reports cancellation from Next once its buffered
// messages are drained (and the buffered messages are the ones delivered while it was live).
func (w *netWorld) checkCancelled() {
	s := w.s
	for i, n := range w.nodes {
		n.mu.Lock()
		subs := append([]*simSub(nil), n.subs...)
		raw := append([]traceRec(nil), n.trace...)
		n.mu.Unlock()
		for _, ss := range subs {
			if !ss.canc || ss.checkedCancel {
				continue
			}
			ss.checkedCancel = true
			ss.mu.Lock()
			ended, err := ss.ended, ss.endErr
			got := append([]*Message(nil), ss.got...)
			ss.mu.Unlock()
			s.probe("c05_cancelled_sub_checked")
			if !ended {
				s.violate("C05", "cancel-reported", "C05/cancel/next-does-not-return", "N%d sub%d (%s) was cancelled at %v but Next still blocks at quiescence", i, ss.id, ss.topic, ss.cancAt)
				continue
			}
			if err != ErrSubscriptionCancelled {
				s.violate("C05", "cancel-reported", "C05/cancel/wrong-error", "N%d sub%d (%s): Next ended with %v, want ErrSubscriptionCancelled", i, ss.id, ss.topic, err)
			}
			if !ss.lazy {
				continue
			}
			// lazy consumer: everything was buffered; expect the first bufCap deliveries of its lifetime
			var want []string
			a, b := ss.rawFrom, ss.rawTo
			if b > len(raw) {
				b = len(raw)
			}
			for _, r := range raw[a:b] {
				if dm := r.ev.GetDeliverMessage(); r.ev.GetType() == pb.TraceEvent_DELIVER_MESSAGE && dm.GetTopic() == ss.topic && len(want) < ss.bufCap {
					want = append(want, string(dm.GetMessageID()))
				}
			}
			var have []string
			for _, m := range got {
				have = append(have, n.ps.idGen.ID(m))
			}
			s.probe("c05_lazy_sub_checked")
			if len(want) > 0 {
				s.probe("c05_lazy_sub_had_buffered")
			}
			if strings.Join(want, "|") != strings.Join(have, "|") {
				s.violate("C05", "cancel-drains", "C05/cancel/buffer-not-drained", "N%d sub%d (%s, buffer %d): after Cancel the consumer read %d messages then the cancellation; %d were buffered while it was live", i, ss.id, ss.topic, ss.bufCap, len(have), len(want))
			}
		}
	}
}

// ---------------------------------------------------------------------------------------------
// C18

func (w *netWorld) checkC18(quiet bool) {
	s := w.s
	for _, e := range w.evhs {
		if quiet && !e.stopped {
			w.evhDrain(e)
		}
		e.mu.Lock()
		evs := append([]PeerEvent(nil), e.events...)
		e.mu.Unlock()
		set := map[peer.ID]bool{}
		bad := false
		for k, ev := range evs {
			switch ev.Type {
			case PeerJoin:
				if set[ev.Peer] {
					s.violate("C18", "alternation", "C18/alternation/join-join", "handler h%d (N%d %s): event %d is a second PeerJoin for %s without a PeerLeave in between; events=%s", e.id, e.node, e.topic, k, w.nameOf(string(ev.Peer)), w.evString(evs))
					bad = true
				}
				set[ev.Peer] = true
			case PeerLeave:
				if !set[ev.Peer] {
					s.violate("C18", "alternation", "C18/alternation/leave-without-join", "handler h%d (N%d %s): event %d is a PeerLeave for %s which is not joined; events=%s", e.id, e.node, e.topic, k, w.nameOf(string(ev.Peer)), w.evString(evs))
					bad = true
				}
				delete(set, ev.Peer)
			default:
				s.violate("C18", "alternation", "C18/unknown-event-type", "handler h%d: event type %d", e.id, ev.Type)
				bad = true
			}
			if bad {
				break
			}
		}
		if bad || !quiet || e.stopped {
			continue
		}
		s.nontrivial = true
		s.probe("c18_handler_checked")
		if len(evs) > 0 {
			s.probe("c18_handler_with_events")
		}
		have := w.listPeers(e.node, e.topic)
		var got []string
		for p := range set {
			got = append(got, string(p))
		}
		sort.Strings(got)
		if strings.Join(got, "|") != strings.Join(have, "|") {
			s.violate("C18", "reproduces-peer-set", "C18/set-mismatch", "handler h%d (N%d %s), drained in a quiet network: replaying its %d events gives %s but the topic's peers are %s; events=%s", e.id, e.node, e.topic, len(evs), w.names(got), w.names(have), w.evString(evs))
		}
	}
}

func (w *netWorld) evString(evs []PeerEvent) string {
	var b strings.Builder
	for i, ev := range evs {
		if i > 0 {
			b.WriteByte(' ')
		}
		if i >= 24 {
			b.WriteString("…")
			break
		}
		if ev.Type == PeerJoin {
			b.WriteString("+")
		} else {
			b.WriteString("-")
		}
		b.WriteString(w.nameOf(string(ev.Peer)))
	}
	return b.String()
}
