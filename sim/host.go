package pubsub

// Simulated libp2p host, network, connections and streams. Every frame, stream open, stream
// death, connection change and identify event is an event the simulator schedules.

import (
	"context"
	"errors"
	"fmt"
	"io"
	"sort"
	"sync"
	"time"

	"github.com/libp2p/go-libp2p/core/connmgr"
	"github.com/libp2p/go-libp2p/core/crypto"
	"github.com/libp2p/go-libp2p/core/event"
	"github.com/libp2p/go-libp2p/core/host"
	"github.com/libp2p/go-libp2p/core/network"
	"github.com/libp2p/go-libp2p/core/peer"
	"github.com/libp2p/go-libp2p/core/peerstore"
	"github.com/libp2p/go-libp2p/core/protocol"
	"github.com/libp2p/go-libp2p/p2p/host/eventbus"
	"github.com/libp2p/go-libp2p/p2p/host/peerstore/pstoremem"
	ma "github.com/multiformats/go-multiaddr"
)

var errSimRefused = errors.New("sim: dial refused")
var errSimNoProto = errors.New("sim: protocols not supported")
var errSimNoConn = errors.New("sim: no connection to peer")
var errSimDeadline = errors.New("sim: i/o deadline reached")

// ---------------------------------------------------------------------------------------------
// pipe: one direction of a stream

type pipe struct {
	s    *sim
	id   int
	name string
	from *simHost
	to   *simHost

	mu   sync.Mutex
	cond *sync.Cond
	// writer side (SUT goroutines)
	wq        [][]byte
	wclosed   bool
	werr      error
	stalled   bool
	wdeadline time.Time
	dirtyFlag bool
	// slow link: after every accepted write the pipe takes no further write for this long (the
	// simulator, at the next quiescence, schedules the moment it accepts one again)
	slow        time.Duration
	needUnstall bool
	// reader side
	rbuf []byte
	reof bool
	rerr error

	// simulator-owned
	lastAt   time.Duration
	sink     func(t time.Duration, b []byte) // fake reader: bytes are handed to the recorder at once
	nchunks  int
	nbytes   int
	minLat   time.Duration
	jitter   time.Duration
	onWrite  func(b []byte) // observation of raw writes (every pipe)
	dropping bool           // reader gone: discard
}

func (s *sim) newPipe(name string, from, to *simHost) *pipe {
	s.npipes++
	p := &pipe{s: s, id: s.npipes, name: name, from: from, to: to}
	p.cond = sync.NewCond(&p.mu)
	p.minLat = time.Duration(s.plan.k("lat_min_us", 200)) * time.Microsecond
	p.jitter = time.Duration(s.plan.k("lat_jit_us", 3000)) * time.Microsecond
	return p
}

// Write is called by SUT writer goroutines.
func (p *pipe) write(b []byte) (int, error) {
	p.mu.Lock()
	for {
		if p.werr != nil {
			err := p.werr
			p.mu.Unlock()
			return 0, err
		}
		if p.wclosed {
			p.mu.Unlock()
			return 0, errors.New("sim: write on closed stream")
		}
		if !p.stalled {
			break
		}
		if !p.wdeadline.IsZero() && !time.Now().Before(p.wdeadline) {
			p.mu.Unlock()
			return 0, errSimDeadline
		}
		if !p.wdeadline.IsZero() {
			d := time.Until(p.wdeadline)
			t := time.AfterFunc(d, func() { p.mu.Lock(); p.cond.Broadcast(); p.mu.Unlock() })
			p.cond.Wait()
			t.Stop()
		} else {
			p.cond.Wait()
		}
	}
	c := make([]byte, len(b))
	copy(c, b)
	p.wq = append(p.wq, c)
	first := !p.dirtyFlag
	p.dirtyFlag = true
	if p.slow > 0 {
		p.stalled = true
		p.needUnstall = true
	}
	p.mu.Unlock()
	if first {
		p.s.mu.Lock()
		p.s.dirty = append(p.s.dirty, p)
		p.s.mu.Unlock()
	}
	p.s.poke()
	return len(b), nil
}

func (p *pipe) read(b []byte) (int, error) {
	p.mu.Lock()
	defer p.mu.Unlock()
	for len(p.rbuf) == 0 {
		if p.rerr != nil {
			return 0, p.rerr
		}
		if p.reof {
			return 0, io.EOF
		}
		p.cond.Wait()
	}
	n := copy(b, p.rbuf)
	p.rbuf = p.rbuf[n:]
	return n, nil
}

// flush (root, at quiescence): turn collected writes into delivery events.
func (p *pipe) flush() {
	p.mu.Lock()
	wq := p.wq
	p.wq = nil
	p.dirtyFlag = false
	closed := p.wclosed
	p.mu.Unlock()
	s := p.s
	for _, b := range wq {
		p.nchunks++
		p.nbytes += len(b)
		s.logf("W %s %d %x", p.name, len(b), shortHash(b))
		if p.onWrite != nil {
			p.onWrite(b)
		}
		if p.sink != nil {
			p.sink(s.now(), b)
			continue
		}
		if p.dropping {
			continue
		}
		p.scheduleDelivery(b)
	}
	_ = closed
}

func (p *pipe) latency() time.Duration {
	s := p.s
	d := p.minLat
	if p.jitter > 0 {
		d += time.Duration(s.hv(fmt.Sprintf("lat|%s|%d", p.name, p.nchunks)) % uint64(p.jitter))
	}
	d -= d % 1000
	return d
}

func (p *pipe) scheduleDelivery(b []byte) {
	s := p.s
	at := s.now() + p.latency()
	if at < p.lastAt {
		at = p.lastAt
	}
	// optional frame splitting (short reads)
	if s.plan.kb("f_split") && len(b) > 1 && s.hf(fmt.Sprintf("split|%s|%d", p.name, p.nchunks)) < s.plan.k("split_rate", 0.2) {
		cut := 1 + s.hn(fmt.Sprintf("cut|%s|%d", p.name, p.nchunks), len(b)-1)
		b1, b2 := b[:cut], b[cut:]
		s.fault("frame_split")
		e1 := s.at(at, "deliver "+p.name, func() { p.deliver(b1) })
		e2 := s.at(e1.at+time.Microsecond, "deliver "+p.name, func() { p.deliver(b2) })
		p.lastAt = e2.at
		return
	}
	e := s.at(at, "deliver "+p.name, func() { p.deliver(b) })
	p.lastAt = e.at
}

// deliver (root, as an event): make bytes readable.
func (p *pipe) deliver(b []byte) {
	p.mu.Lock()
	if p.rerr == nil && !p.reof {
		p.rbuf = append(p.rbuf, b...)
	}
	p.cond.Broadcast()
	p.mu.Unlock()
}

func (p *pipe) setReadEOF() {
	p.mu.Lock()
	p.reof = true
	p.cond.Broadcast()
	p.mu.Unlock()
}

// killRead: the reader of this pipe sees err from now on.
func (p *pipe) killRead(err error) {
	p.mu.Lock()
	if p.rerr == nil {
		p.rerr = err
	}
	p.rbuf = nil
	p.cond.Broadcast()
	p.mu.Unlock()
}

// killWrite: the writer of this pipe sees err from now on.
func (p *pipe) killWrite(err error) {
	p.mu.Lock()
	if p.werr == nil {
		p.werr = err
	}
	p.cond.Broadcast()
	p.mu.Unlock()
}

// killEnd: this endpoint of the stream is dead (reads and writes fail).
func (st *simStream) killEnd(err error) {
	st.rd.killRead(err)
	st.wr.killWrite(err)
}

func (p *pipe) setStalled(v bool) {
	p.mu.Lock()
	p.stalled = v
	p.cond.Broadcast()
	p.mu.Unlock()
}

func shortHash(b []byte) []byte {
	h := uint64(14695981039346656037)
	for _, c := range b {
		h ^= uint64(c)
		h *= 1099511628211
	}
	return []byte{byte(h >> 56), byte(h >> 48), byte(h >> 40), byte(h >> 32), byte(h >> 24), byte(h >> 16)}
}

// ---------------------------------------------------------------------------------------------
// streams

type simStream struct {
	network.Stream // nil; unimplemented methods panic if ever used

	s     *sim
	id    int
	name  string
	conn  *simConn
	proto protocol.ID
	rd    *pipe // bytes arriving from the remote
	wr    *pipe // bytes we send
	peer  *simStream
	out   bool // opened by the local side

	mu        sync.Mutex
	localShut bool // Reset or Close called locally
	nops      int
}

type streamOp struct {
	st *simStream
	op string // "reset", "close", "closewrite"
	n  int
}

func (st *simStream) Read(b []byte) (int, error)  { return st.rd.read(b) }
func (st *simStream) Write(b []byte) (int, error) { return st.wr.write(b) }
func (st *simStream) Protocol() protocol.ID       { return st.proto }
func (st *simStream) SetProtocol(id protocol.ID) error {
	st.proto = id
	return nil
}
func (st *simStream) Conn() network.Conn { return st.conn }
func (st *simStream) ID() string         { return st.name }
func (st *simStream) Stat() network.Stats {
	d := network.DirInbound
	if st.out {
		d = network.DirOutbound
	}
	return network.Stats{Direction: d}
}
func (st *simStream) SetDeadline(t time.Time) error     { return st.SetWriteDeadline(t) }
func (st *simStream) SetReadDeadline(t time.Time) error { return nil }
func (st *simStream) SetWriteDeadline(t time.Time) error {
	st.wr.mu.Lock()
	st.wr.wdeadline = t
	st.wr.mu.Unlock()
	return nil
}

func (st *simStream) op(kind string) {
	st.mu.Lock()
	st.nops++
	n := st.nops
	st.mu.Unlock()
	st.s.mu.Lock()
	st.s.sops = append(st.s.sops, streamOp{st, kind, n})
	st.s.mu.Unlock()
	st.s.poke()
}

// Reset: both directions die locally at once; the remote learns after a latency.
func (st *simStream) Reset() error {
	st.killEnd(network.ErrReset)
	st.op("reset")
	return nil
}
func (st *simStream) ResetWithError(network.StreamErrorCode) error { return st.Reset() }

// Close: our write side closes (EOF at the remote after in-flight data), our read side is discarded.
func (st *simStream) Close() error {
	st.wr.mu.Lock()
	st.wr.wclosed = true
	st.wr.cond.Broadcast()
	st.wr.mu.Unlock()
	st.rd.mu.Lock()
	if st.rd.rerr == nil {
		st.rd.rerr = errors.New("sim: read on closed stream")
	}
	st.rd.rbuf = nil
	st.rd.cond.Broadcast()
	st.rd.mu.Unlock()
	st.op("close")
	return nil
}
func (st *simStream) CloseWrite() error {
	st.wr.mu.Lock()
	st.wr.wclosed = true
	st.wr.cond.Broadcast()
	st.wr.mu.Unlock()
	st.op("closewrite")
	return nil
}
func (st *simStream) CloseRead() error { return nil }

// handleStreamOp (root): propagate a local close/reset to the remote endpoint after a latency.
func (s *sim) handleStreamOp(op streamOp) {
	st := op.st
	s.logf("SOP %s %s", st.name, op.op)
	if st.conn != nil && st.conn.host.onStreamOp != nil {
		st.conn.host.onStreamOp(st, op.op)
	}
	switch op.op {
	case "reset":
		st.conn.removeStream(st)
		if st.peer == nil {
			return
		}
		rp := st.peer
		if st.wr.sink != nil || rp.conn.host.fake {
			// remote is a scripted peer: it learns immediately (no goroutine involved)
			rp.killEnd(network.ErrReset)
			rp.conn.removeStream(rp)
			return
		}
		at := s.now() + st.wr.latency()
		if at < st.wr.lastAt {
			at = st.wr.lastAt
		}
		e := s.at(at, "reset-arrives "+rp.name, func() {
			rp.killEnd(network.ErrReset)
			rp.conn.removeStream(rp)
		})
		st.wr.lastAt = e.at
	case "close", "closewrite":
		if op.op == "close" {
			st.conn.removeStream(st)
		}
		if st.peer == nil {
			return
		}
		rp := st.peer
		if st.wr.sink != nil || rp.conn.host.fake {
			rp.rd.setReadEOF()
			return
		}
		at := s.now() + st.wr.latency()
		if at < st.wr.lastAt {
			at = st.wr.lastAt
		}
		e := s.at(at, "eof-arrives "+rp.name, func() { rp.rd.setReadEOF() })
		st.wr.lastAt = e.at
	}
}

// ---------------------------------------------------------------------------------------------
// connections

type simConn struct {
	network.Conn // nil

	s       *sim
	id      string
	host    *simHost // local side
	remote  *simHost
	dir     network.Direction
	limited bool
	raddr   ma.Multiaddr
	laddr   ma.Multiaddr
	peer    *simConn
	opened  time.Time

	mu      sync.Mutex
	streams []*simStream
	closed  bool
}

func (c *simConn) LocalPeer() peer.ID             { return c.host.id }
func (c *simConn) RemotePeer() peer.ID            { return c.remote.id }
func (c *simConn) RemotePublicKey() crypto.PubKey { return c.remote.priv.GetPublic() }
func (c *simConn) ConnState() network.ConnectionState {
	return network.ConnectionState{Transport: "sim"}
}
func (c *simConn) LocalMultiaddr() ma.Multiaddr  { return c.laddr }
func (c *simConn) RemoteMultiaddr() ma.Multiaddr { return c.raddr }
func (c *simConn) Stat() network.ConnStats {
	return network.ConnStats{Stats: network.Stats{Direction: c.dir, Opened: c.opened, Limited: c.limited}, NumStreams: len(c.GetStreams())}
}
func (c *simConn) ID() string { return c.id }
func (c *simConn) GetStreams() []network.Stream {
	c.mu.Lock()
	defer c.mu.Unlock()
	out := make([]network.Stream, 0, len(c.streams))
	for _, st := range c.streams {
		out = append(out, st)
	}
	return out
}
func (c *simConn) IsClosed() bool {
	c.mu.Lock()
	defer c.mu.Unlock()
	return c.closed
}
func (c *simConn) Close() error { return nil }
func (c *simConn) removeStream(st *simStream) {
	c.mu.Lock()
	defer c.mu.Unlock()
	for i, x := range c.streams {
		if x == st {
			c.streams = append(c.streams[:i:i], c.streams[i+1:]...)
			return
		}
	}
}
func (c *simConn) addStream(st *simStream) {
	c.mu.Lock()
	c.streams = append(c.streams, st)
	c.mu.Unlock()
}
func (c *simConn) snapshotStreams() []*simStream {
	c.mu.Lock()
	defer c.mu.Unlock()
	return append([]*simStream(nil), c.streams...)
}

// ---------------------------------------------------------------------------------------------
// host + network

type handlerEnt struct {
	id    protocol.ID
	match func(protocol.ID) bool
	h     network.StreamHandler
}

type simHost struct {
	s    *sim
	idx  int
	name string
	id   peer.ID
	priv crypto.PrivKey
	ps   peerstore.Peerstore
	bus  event.Bus
	cm   *simConnMgr
	nw   *simNetwork
	addr ma.Multiaddr

	emIdent event.Emitter
	emProto event.Emitter
	emConn  event.Emitter

	mu       sync.Mutex
	handlers []handlerEnt
	conns    map[peer.ID][]*simConn
	openSeq  map[peer.ID]int
	connects []peer.AddrInfo // Connect() requests (PX, direct peers)
	closed   bool

	// scripted (fake) peer support
	fake       bool
	fakeProtos []protocol.ID
	fakePeer   *fakePeer

	onStreamOp  func(st *simStream, op string)
	openFail    func(remote peer.ID, n int) (fail bool, delay time.Duration) // fault hook for NewStream
	connectHook func(ctx context.Context, pi peer.AddrInfo) error
}

func (s *sim) newHost(name string, priv crypto.PrivKey, ip string) *simHost {
	id, err := peer.IDFromPrivateKey(priv)
	if err != nil {
		panic(err)
	}
	h := &simHost{s: s, idx: len(s.hosts), name: name, id: id, priv: priv,
		conns: map[peer.ID][]*simConn{}, openSeq: map[peer.ID]int{}}
	h.addr = ma.StringCast(fmt.Sprintf("/ip4/%s/tcp/4001", ip))
	h.nw = &simNetwork{h: h}
	h.cm = newSimConnMgr(s, h)
	s.hosts = append(s.hosts, h)
	s.byID[id] = h
	return h
}

// start creates the real dependencies (peerstore, event bus). Must run inside the bubble.
func (h *simHost) start() {
	ps, err := pstoremem.NewPeerstore()
	if err != nil {
		panic(err)
	}
	h.ps = ps
	ps.AddPrivKey(h.id, h.priv)
	ps.AddPubKey(h.id, h.priv.GetPublic())
	h.bus = eventbus.NewBus()
	h.emIdent, _ = h.bus.Emitter(new(event.EvtPeerIdentificationCompleted))
	h.emProto, _ = h.bus.Emitter(new(event.EvtPeerProtocolsUpdated))
	h.emConn, _ = h.bus.Emitter(new(event.EvtPeerConnectednessChanged))
}

func (h *simHost) stop() {
	h.mu.Lock()
	h.closed = true
	h.mu.Unlock()
	if h.ps != nil {
		h.ps.Close()
	}
	if h.emIdent != nil {
		h.emIdent.Close()
		h.emProto.Close()
		h.emConn.Close()
	}
}

var _ host.Host = (*simHost)(nil)

func (h *simHost) ID() peer.ID                      { return h.id }
func (h *simHost) Peerstore() peerstore.Peerstore   { return h.ps }
func (h *simHost) Addrs() []ma.Multiaddr            { return []ma.Multiaddr{h.addr} }
func (h *simHost) Network() network.Network         { return h.nw }
func (h *simHost) Mux() protocol.Switch             { return nil }
func (h *simHost) ConnManager() connmgr.ConnManager { return h.cm }
func (h *simHost) EventBus() event.Bus              { return h.bus }
func (h *simHost) Close() error                     { return nil }

func (h *simHost) Connect(ctx context.Context, pi peer.AddrInfo) error {
	h.mu.Lock()
	h.connects = append(h.connects, pi)
	hook := h.connectHook
	h.mu.Unlock()
	h.s.note("connect %s -> %s", h.name, shortPeer(pi.ID))
	if hook != nil {
		return hook(ctx, pi)
	}
	return errSimRefused
}

func (h *simHost) SetStreamHandler(pid protocol.ID, handler network.StreamHandler) {
	h.SetStreamHandlerMatch(pid, func(p protocol.ID) bool { return p == pid }, handler)
}
func (h *simHost) SetStreamHandlerMatch(pid protocol.ID, m func(protocol.ID) bool, handler network.StreamHandler) {
	h.mu.Lock()
	defer h.mu.Unlock()
	h.handlers = append(h.handlers, handlerEnt{pid, m, handler})
}
func (h *simHost) RemoveStreamHandler(pid protocol.ID) {
	h.mu.Lock()
	defer h.mu.Unlock()
	for i, e := range h.handlers {
		if e.id == pid {
			h.handlers = append(h.handlers[:i:i], h.handlers[i+1:]...)
			return
		}
	}
}

func (h *simHost) protocols() []protocol.ID {
	if h.fake {
		return h.fakeProtos
	}
	h.mu.Lock()
	defer h.mu.Unlock()
	var out []protocol.ID
	for _, e := range h.handlers {
		out = append(out, e.id)
	}
	return out
}

func (h *simHost) handlerFor(p protocol.ID) network.StreamHandler {
	h.mu.Lock()
	defer h.mu.Unlock()
	for _, e := range h.handlers {
		if e.match(p) {
			return e.h
		}
	}
	return nil
}

func (h *simHost) supports(p protocol.ID) bool {
	if h.fake {
		for _, q := range h.fakeProtos {
			if q == p {
				return true
			}
		}
		return false
	}
	return h.handlerFor(p) != nil
}

type openReq struct {
	key   string
	h     *simHost
	to    peer.ID
	pids  []protocol.ID
	n     int
	resp  chan openResp
	ctx   context.Context
	given bool
}
type openResp struct {
	st  *simStream
	err error
}

// NewStream is called by SUT goroutines; the simulator completes it as an event.
func (h *simHost) NewStream(ctx context.Context, p peer.ID, pids ...protocol.ID) (network.Stream, error) {
	h.mu.Lock()
	n := h.openSeq[p]
	h.openSeq[p] = n + 1
	h.mu.Unlock()
	r := &openReq{key: fmt.Sprintf("%03d>%s#%04d", h.idx, p, n), h: h, to: p, pids: pids, n: n, resp: make(chan openResp, 1), ctx: ctx}
	h.s.mu.Lock()
	h.s.openReqs = append(h.s.openReqs, r)
	h.s.mu.Unlock()
	h.s.poke()
	select {
	case resp := <-r.resp:
		if resp.err != nil {
			return nil, resp.err
		}
		return resp.st, nil
	case <-ctx.Done():
		return nil, ctx.Err()
	}
}

// handleOpenReq (root): schedule completion of a stream open.
func (s *sim) handleOpenReq(r *openReq) {
	h := r.h
	rh := s.byID[r.to]
	s.logf("OPENREQ %s -> %s #%d", h.name, shortPeer(r.to), r.n)
	delay := time.Duration(200+s.hn("opend|"+r.key, 2000)) * time.Microsecond
	fail := false
	if h.openFail != nil {
		f, d := h.openFail(r.to, r.n)
		fail = f
		if d > 0 {
			delay = d
		}
	}
	s.after(delay, fmt.Sprintf("open-complete %s>%s#%d", h.name, shortPeer(r.to), r.n), func() {
		if r.ctx.Err() != nil {
			r.resp <- openResp{nil, r.ctx.Err()}
			return
		}
		if fail || rh == nil {
			s.fault("stream_open_fail")
			r.resp <- openResp{nil, errSimRefused}
			return
		}
		c := h.connTo(r.to)
		if c == nil {
			r.resp <- openResp{nil, errSimNoConn}
			return
		}
		var chosen protocol.ID
		ok := false
		for _, p := range r.pids {
			if rh.supports(p) {
				chosen, ok = p, true
				break
			}
		}
		if !ok {
			r.resp <- openResp{nil, errSimNoProto}
			return
		}
		local, remote := s.newStreamPair(c, chosen)
		r.resp <- openResp{local, nil}
		if rh.fake {
			rh.fakeAccept(remote)
			return
		}
		hd := rh.handlerFor(chosen)
		d2 := time.Duration(100+s.hn("opend2|"+r.key, 1500)) * time.Microsecond
		e := s.after(d2, "stream-arrives "+remote.name, func() {
			if remote.rd.rerrSet() || hd == nil {
				return // already dead
			}
			go hd(remote)
		})
		// bytes must not overtake the stream itself
		local.wr.lastAt = e.at + time.Microsecond
	})
}

func (p *pipe) rerrSet() bool {
	p.mu.Lock()
	defer p.mu.Unlock()
	return p.rerr != nil
}

// newStreamPair creates the two endpoints of a stream on connection c (local side opens).
func (s *sim) newStreamPair(c *simConn, proto protocol.ID) (*simStream, *simStream) {
	s.nstreams++
	n := s.nstreams
	a, b := c.host, c.remote
	ab := s.newPipe(fmt.Sprintf("s%d:%s>%s", n, a.name, b.name), a, b)
	ba := s.newPipe(fmt.Sprintf("s%d:%s>%s", n, b.name, a.name), b, a)
	local := &simStream{s: s, id: 2 * n, name: fmt.Sprintf("s%d@%s", n, a.name), conn: c, proto: proto, rd: ba, wr: ab, out: true}
	remote := &simStream{s: s, id: 2*n + 1, name: fmt.Sprintf("s%d@%s", n, b.name), conn: c.peer, proto: proto, rd: ab, wr: ba, out: false}
	local.peer, remote.peer = remote, local
	c.addStream(local)
	c.peer.addStream(remote)
	return local, remote
}

func (h *simHost) connTo(p peer.ID) *simConn {
	h.mu.Lock()
	defer h.mu.Unlock()
	cs := h.conns[p]
	for _, c := range cs {
		if !c.limited {
			return c
		}
	}
	return nil
}

type simNetwork struct {
	network.Network // nil
	h               *simHost
}

func (n *simNetwork) Peerstore() peerstore.Peerstore { return n.h.ps }
func (n *simNetwork) LocalPeer() peer.ID             { return n.h.id }
func (n *simNetwork) Connectedness(p peer.ID) network.Connectedness {
	n.h.mu.Lock()
	defer n.h.mu.Unlock()
	cs := n.h.conns[p]
	if len(cs) == 0 {
		return network.NotConnected
	}
	for _, c := range cs {
		if !c.limited {
			return network.Connected
		}
	}
	return network.Limited
}
func (n *simNetwork) Peers() []peer.ID {
	n.h.mu.Lock()
	defer n.h.mu.Unlock()
	var out []peer.ID
	for p, cs := range n.h.conns {
		if len(cs) > 0 {
			out = append(out, p)
		}
	}
	sort.Slice(out, func(i, j int) bool { return out[i] < out[j] })
	return out
}
func (n *simNetwork) Conns() []network.Conn {
	var out []network.Conn
	for _, p := range n.Peers() {
		out = append(out, n.ConnsToPeer(p)...)
	}
	return out
}
func (n *simNetwork) ConnsToPeer(p peer.ID) []network.Conn {
	n.h.mu.Lock()
	defer n.h.mu.Unlock()
	var out []network.Conn
	for _, c := range n.h.conns[p] {
		out = append(out, c)
	}
	return out
}
func (n *simNetwork) Notify(network.Notifiee)     {}
func (n *simNetwork) StopNotify(network.Notifiee) {}
func (n *simNetwork) Close() error                { return nil }
func (n *simNetwork) ClosePeer(peer.ID) error     { return nil }

// ---------------------------------------------------------------------------------------------
// simulator-driven connection lifecycle (root only)

// connect creates a connection a->b (a is the dialer). No identify yet.
func (s *sim) connect(a, b *simHost, limited bool) *simConn {
	s.nconns++
	id := fmt.Sprintf("c%d", s.nconns)
	ca := &simConn{s: s, id: id + "@" + a.name, host: a, remote: b, dir: network.DirOutbound, limited: limited, raddr: b.addr, laddr: a.addr, opened: time.Now()}
	cb := &simConn{s: s, id: id + "@" + b.name, host: b, remote: a, dir: network.DirInbound, limited: limited, raddr: a.addr, laddr: b.addr, opened: time.Now()}
	ca.peer, cb.peer = cb, ca
	a.mu.Lock()
	firstA := len(a.conns[b.id]) == 0
	a.conns[b.id] = append(a.conns[b.id], ca)
	a.mu.Unlock()
	b.mu.Lock()
	firstB := len(b.conns[a.id]) == 0
	b.conns[a.id] = append(b.conns[a.id], cb)
	b.mu.Unlock()
	s.logf("CONNECT %s -> %s (%s)", a.name, b.name, id)
	if !a.fake && firstA && !limited {
		a.emConn.Emit(event.EvtPeerConnectednessChanged{Peer: b.id, Connectedness: network.Connected})
	}
	if !b.fake && firstB && !limited {
		b.emConn.Emit(event.EvtPeerConnectednessChanged{Peer: a.id, Connectedness: network.Connected})
	}
	return ca
}

// identify tells h which protocols its neighbour speaks.
func (s *sim) identify(h *simHost, about *simHost) {
	if h.fake {
		return
	}
	c := h.connTo(about.id)
	var nc network.Conn
	if c != nil {
		nc = c
	}
	s.logf("IDENTIFY %s learns %s", h.name, about.name)
	h.emIdent.Emit(event.EvtPeerIdentificationCompleted{Peer: about.id, Conn: nc, Protocols: about.protocols(), ListenAddrs: []ma.Multiaddr{about.addr}})
}

// closeConn kills one connection. The connection state changes first; every stream endpoint
// then dies as its own event, in a seed-derived order (one input per quiescence).
func (s *sim) closeConn(c *simConn) {
	s.logf("CLOSECONN %s", c.id)
	var ends []*simStream
	for _, end := range []*simConn{c, c.peer} {
		end.mu.Lock()
		end.closed = true
		sts := end.streams
		end.streams = nil
		end.mu.Unlock()
		ends = append(ends, sts...)
		h := end.host
		h.mu.Lock()
		cs := h.conns[end.remote.id]
		for i, x := range cs {
			if x == end {
				cs = append(cs[:i:i], cs[i+1:]...)
				break
			}
		}
		if len(cs) == 0 {
			delete(h.conns, end.remote.id)
		} else {
			h.conns[end.remote.id] = cs
		}
		last := len(cs) == 0
		h.mu.Unlock()
		if !h.fake && last && !end.limited {
			h.emConn.Emit(event.EvtPeerConnectednessChanged{Peer: end.remote.id, Connectedness: network.NotConnected})
		}
	}
	sort.SliceStable(ends, func(i, j int) bool {
		return s.hv(fmt.Sprintf("killorder|%s|%d", c.id, ends[i].id)) < s.hv(fmt.Sprintf("killorder|%s|%d", c.id, ends[j].id))
	})
	for _, st := range ends {
		st := st
		if st.conn.host.fake {
			st.killEnd(network.ErrReset)
			continue
		}
		s.asap("stream-dies "+st.name, func() { st.killEnd(network.ErrReset) })
	}
}

func (s *sim) disconnect(a, b *simHost) {
	a.mu.Lock()
	cs := append([]*simConn(nil), a.conns[b.id]...)
	a.mu.Unlock()
	for _, c := range cs {
		s.closeConn(c)
	}
}

// ---------------------------------------------------------------------------------------------
// recording connection manager

type simConnMgr struct {
	connmgr.NullConnMgr
	s  *sim
	h  *simHost
	mu sync.Mutex
	// protections: peer -> tag -> true
	prot map[peer.ID]map[string]bool
	tags map[peer.ID]map[string]int
	dec  map[string]*simDecTag
}

func newSimConnMgr(s *sim, h *simHost) *simConnMgr {
	return &simConnMgr{s: s, h: h, prot: map[peer.ID]map[string]bool{}, tags: map[peer.ID]map[string]int{}, dec: map[string]*simDecTag{}}
}

func (m *simConnMgr) Protect(p peer.ID, tag string) {
	m.mu.Lock()
	defer m.mu.Unlock()
	if m.prot[p] == nil {
		m.prot[p] = map[string]bool{}
	}
	m.prot[p][tag] = true
}
func (m *simConnMgr) Unprotect(p peer.ID, tag string) bool {
	m.mu.Lock()
	defer m.mu.Unlock()
	delete(m.prot[p], tag)
	if len(m.prot[p]) == 0 {
		delete(m.prot, p)
		return false
	}
	return true
}
func (m *simConnMgr) IsProtected(p peer.ID, tag string) bool {
	m.mu.Lock()
	defer m.mu.Unlock()
	if tag == "" {
		return len(m.prot[p]) > 0
	}
	return m.prot[p][tag]
}
func (m *simConnMgr) TagPeer(p peer.ID, tag string, v int) {
	m.mu.Lock()
	defer m.mu.Unlock()
	if m.tags[p] == nil {
		m.tags[p] = map[string]int{}
	}
	m.tags[p][tag] = v
}
func (m *simConnMgr) UntagPeer(p peer.ID, tag string) {
	m.mu.Lock()
	defer m.mu.Unlock()
	delete(m.tags[p], tag)
	if len(m.tags[p]) == 0 {
		delete(m.tags, p)
	}
}
func (m *simConnMgr) protections(p peer.ID) []string {
	m.mu.Lock()
	defer m.mu.Unlock()
	var out []string
	for t := range m.prot[p] {
		out = append(out, t)
	}
	sort.Strings(out)
	return out
}
func (m *simConnMgr) tagNames(p peer.ID) []string {
	m.mu.Lock()
	defer m.mu.Unlock()
	var out []string
	for t := range m.tags[p] {
		out = append(out, t)
	}
	for name, d := range m.dec {
		if _, ok := d.vals[p]; ok {
			out = append(out, name)
		}
	}
	sort.Strings(out)
	return out
}

type simDecTag struct {
	m        *simConnMgr
	name     string
	interval time.Duration
	decay    connmgr.DecayFn
	bump     connmgr.BumpFn
	vals     map[peer.ID]*connmgr.DecayingValue
	closed   bool
}

func (m *simConnMgr) RegisterDecayingTag(name string, interval time.Duration, decayFn connmgr.DecayFn, bumpFn connmgr.BumpFn) (connmgr.DecayingTag, error) {
	m.mu.Lock()
	defer m.mu.Unlock()
	if _, ok := m.dec[name]; ok {
		return nil, fmt.Errorf("decaying tag with name %s already exists", name)
	}
	t := &simDecTag{m: m, name: name, interval: interval, decay: decayFn, bump: bumpFn, vals: map[peer.ID]*connmgr.DecayingValue{}}
	m.dec[name] = t
	return t, nil
}

func (t *simDecTag) Name() string            { return t.name }
func (t *simDecTag) Interval() time.Duration { return t.interval }
func (t *simDecTag) Bump(p peer.ID, delta int) error {
	t.m.mu.Lock()
	defer t.m.mu.Unlock()
	if t.closed {
		return errors.New("closed")
	}
	v := t.vals[p]
	if v == nil {
		v = &connmgr.DecayingValue{Tag: t, Peer: p, Added: time.Now()}
		t.vals[p] = v
	}
	v.Value = t.bump(*v, delta)
	v.LastVisit = time.Now()
	return nil
}
func (t *simDecTag) Remove(p peer.ID) error {
	t.m.mu.Lock()
	defer t.m.mu.Unlock()
	delete(t.vals, p)
	return nil
}
func (t *simDecTag) Close() error {
	t.m.mu.Lock()
	defer t.m.mu.Unlock()
	t.closed = true
	delete(t.m.dec, t.name)
	return nil
}

// decayAll applies the decay functions as if the intervals elapsed (called by the simulator
// when it advances long stretches; the real connection manager does this with a ticker).
func (m *simConnMgr) decayAll(times int) {
	m.mu.Lock()
	defer m.mu.Unlock()
	for _, t := range m.dec {
		for p, v := range t.vals {
			for i := 0; i < times; i++ {
				after, rm := t.decay(*v)
				v.Value = after
				if rm {
					delete(t.vals, p)
					break
				}
			}
		}
	}
}

func maddr(ip string) ma.Multiaddr { return ma.StringCast(fmt.Sprintf("/ip4/%s/tcp/4001", ip)) }
