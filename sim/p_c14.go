package pubsub

// C14 — after shutdown every API call returns and every library goroutine exits.
// W-NODE, each router, with and without a simulated discovery service. Workloads of simulated
// client tasks call the whole public surface; operations are parked mid-way on gates (validators,
// stalled pipes, readiness polls, pending stream opens); the constructor's context is cancelled at
// a chosen step (fault enumeration: for each workload every step is a cancellation point), then
// every call of the surface is issued again, some repeatedly.

import (
	"context"
	"fmt"
	"regexp"
	"strings"
	"sync"
	"time"

	"github.com/libp2p/go-libp2p/core/discovery"
	"github.com/libp2p/go-libp2p/core/peer"
)

func init() {
	registerProp("C14", genC14, map[string]func(*sim){"node": runC14})
}

const c14Positions = 48 // cancellation positions per workload (plans are shorter)
const c14APIKinds = 24

func genC14(seed uint64, tier string) *Plan {
	// the driver hands out sequential seeds for this property: workload = seed / positions,
	// cancellation point = seed % positions, so that every step of every sampled workload is a
	// cancellation point
	wl := seed / c14Positions
	pos := int(seed % c14Positions)
	r := newPrng(wl, "c14")
	p := &Plan{World: "node", Knobs: map[string]float64{}, SK: map[string]string{}}
	p.SK["router"] = []string{"gossipsub", "gossipsub", "floodsub", "randomsub"}[r.intn(4)]
	p.Knobs["ntopics"] = 2
	p.Knobs["discovery"] = float64(b2i(r.chance(0.4)))
	if p.Knobs["discovery"] == 1 && r.chance(0.4) {
		p.Knobs["many_topics"] = float64(r.rng(33, 45)) // more joined topics without peers than the discovery queue has slots
	}
	if r.chance(0.25) {
		p.Knobs["p_open_fail"] = []float64{0.15, 0.4, 0.8}[r.intn(3)] // stream opens that fail or are slow
	}
	p.Knobs["scoring"] = float64(r.intn(2))
	p.Knobs["hb_ms"] = 1000
	p.Knobs["queue_size"] = float64([]int{1, 2, 32}[r.intn(3)])
	p.Knobs["nval_default"] = float64(r.intn(2))
	p.Knobs["topic_val"] = float64(r.intn(2))
	p.Knobs["v0_inline"] = float64(r.intn(2))
	p.Knobs["v3_inline"] = float64(r.intn(2))
	if r.chance(0.2) {
		// two asynchronous validators on one message (they share a context the library derives)
		p.Knobs["nval_default"], p.Knobs["topic_val"], p.Knobs["topic_val_all"], p.Knobs["v0_inline"], p.Knobs["v3_inline"] = 1, 1, 1, 0, 0
	}
	p.Knobs["p_park"] = []float64{0, 0.5, 1}[r.intn(3)]
	p.Knobs["workers"] = float64(r.rng(1, 2))
	p.Knobs["cancel_pos"] = float64(pos)
	p.Knobs["val_ignore_ctx"] = float64(r.intn(2))
	if p.SK["router"] == "gossipsub" && r.chance(0.25) {
		// more (unreachable) direct peers than the dial queue has slots
		p.Knobs["direct_n"] = float64(r.rng(3, 5))
		p.Knobs["max_pending_conns"] = float64(r.rng(1, 2))
		p.Knobs["connectors"] = float64(r.rng(1, 2))
		p.Knobs["direct_ticks"] = float64([]int{2, 3, 300}[r.intn(3)])
		p.Knobs["connect_block"] = float64(r.intn(2))
		p.Knobs["conn_timeout_ms"] = float64([]int{500, 30000}[r.intn(2)])
	}
	// half of the workloads cancel in the MIDDLE of the API call at the cancellation position: the
	// event loop is parked between receiving the request and handling it (verifLoopRequest)
	p.Knobs["cancel_mid_call"] = float64(r.intn(2))
	// ... and sometimes the loop stays busy for a while first (timers fire, hand-offs queue up behind it)
	p.Knobs["mid_call_wait_ms"] = float64([]int{0, 0, 1500, 2500}[r.intn(4)])
	genDegrees(r, p, 4)
	add := func(op string, a ...int64) { p.Items = append(p.Items, Item{Op: op, A: a}) }
	np := r.rng(1, 3)
	n := r.rng(12, 40)
	for i := 0; i < np && len(p.Items) < n; i++ {
		add("peer", int64(i), int64(r.intn(5)), int64(r.intn(2)), int64(i))
		add("identify", int64(i))
		if r.chance(0.7) {
			add("adv", 4)
		}
		add("open", int64(i))
		add("sub", int64(i), int64(r.intn(2)))
	}
	for len(p.Items) < n {
		i := int64(r.intn(np))
		x := r.intn(100)
		switch {
		case x < 3:
			// more concurrent publications than the hand-off channel to the event loop has slots
			add("storm", int64(r.intn(2)), int64(r.rng(33, 40)))
		case x < 6:
			// more inbound RPCs at once than the hand-off channel from the stream handlers has slots
			add("inbound-storm", i, int64(r.rng(34, 70)))
		case x < 60:
			add("api", int64(r.intn(c14APIKinds)), int64(r.intn(2)), int64(r.intn(4)))
		case x < 68:
			add("pub", i, int64(r.intn(2)), int64(r.rng(8, 60)))
		case x < 74:
			add("stall", i, int64(r.intn(2)))
		case x < 80:
			add("release", int64(r.intn(4)))
		case x < 90:
			add("adv", int64(r.rng(1, 1500)))
		case x < 93:
			add("disconnect", i)
		case x < 96:
			add("reconnect", i, int64(r.intn(2)))
			add("identify", i)
		default:
			add("reset-in", i)
		}
	}
	return p
}

// simDiscovery: a stub discovery service answering from the plan.
type simDiscovery struct {
	s  *sim
	mu sync.Mutex
	n  int
}

func (d *simDiscovery) Advertise(ctx context.Context, ns string, opts ...discovery.Option) (time.Duration, error) {
	d.s.note("discovery advertise %s", ns)
	return time.Hour, nil
}
func (d *simDiscovery) FindPeers(ctx context.Context, ns string, opts ...discovery.Option) (<-chan peer.AddrInfo, error) {
	ch := make(chan peer.AddrInfo)
	close(ch)
	return ch, nil
}

type c14Call struct {
	topic    string // topic handle whose read lock the call may hold while parked
	c        *call
	kind     string
	ownCtx   context.CancelFunc // for calls that wait on a caller context
	consumer bool               // may legitimately wait until its own context is cancelled
	after    bool               // issued after the cancellation
}

func runC14(s *sim) {
	w := newNodeWorld(s)
	p := w.plan
	var extra []Option
	if p.kb("discovery") {
		extra = append(extra, WithDiscovery(&simDiscovery{s: s}))
	}
	if dn := p.ki("direct_n", 0); dn > 0 {
		var dps []peer.AddrInfo
		kr := newPrng(p.Seed/c14Positions, "c14-direct")
		for i := 0; i < dn; i++ {
			id, _ := peer.IDFromPrivateKey(genKey(kr, 0))
			dps = append(dps, peer.AddrInfo{ID: id})
		}
		extra = append(extra, WithDirectPeers(dps))
		s.probe("direct_peers_configured")
	}
	if err := w.startNode(extra...); err != nil {
		s.violate("SIM", "setup", "SIM/setup", "node creation failed: %v", err)
		return
	}
	n := w.n
	ps := n.ps
	if k := p.ki("many_topics", 0); k > 0 {
		s.probe("many_joined_topics_without_peers")
		for j := 0; j < k; j++ {
			name := fmt.Sprintf("lonely-%d", j)
			s.do("Join "+name, func() any { _, err := ps.Join(name); return err })
		}
	}
	var calls []*c14Call
	cancelled := false
	var cancelAt time.Duration
	var handlers []*TopicEventHandler
	nBatch := 0
	topicH := func(k int64) (*Topic, error) { return n.topic(w.topicName(k)) }
	var shutdown func()
	midCall, armed := false, false
	defer func() { verifYieldFn = nil }()
	armedEvent := false
	verifYieldFn = func(point int) {
		switch point {
		case verifLoopRequest:
			s.mu.Lock()
			a := armed
			armed = false
			s.mu.Unlock()
			if a {
				s.park("loop-request", nil, nil, nil)
			}
		case verifLoopEvent:
			// a peer / stream / wire event has been received by the loop and not yet handled
			s.mu.Lock()
			a := armedEvent
			armedEvent = false
			s.mu.Unlock()
			if a {
				s.park("loop-event", nil, nil, nil)
			}
		}
	}
	issue := func(kind int, a1, a2 int64) {
		tname := w.topicName(a1)
		cc := &c14Call{after: cancelled}
		switch kind {
		case 5, 6, 7, 21:
			cc.topic = tname
		case 16, 18:
			// Topic.Close / SetScoreParams take the topic's write lock, a Publish holds its read lock
			// while it is parked in a validator or polls for readiness. A goroutine blocked on a mutex is
			// not a durable block, so virtual time could never advance to release the publisher: such
			// schedules cannot be run under synctest and are skipped (counted).
			for _, c := range calls {
				if c.topic == tname && !c.c.isDone(s) {
					s.probe("skipped_write_lock_while_publish_parked")
					return
				}
			}
		}
		name := ""
		var f func() any
		switch kind {
		case 0:
			name = "Join"
			f = func() any { _, err := topicH(a1); return err }
		case 1:
			name = "Topic.Subscribe"
			f = func() any { _, err := n.subscribe(tname, 64); return err }
		case 2:
			name = "Subscription.Cancel"
			f = func() any {
				n.mu.Lock()
				var ss *simSub
				if len(n.subs) > 0 {
					ss = n.subs[int(a2)%len(n.subs)]
				}
				n.mu.Unlock()
				if ss != nil {
					ss.sub.Cancel()
				}
				return nil
			}
		case 3:
			name = "Topic.Relay"
			f = func() any {
				t, err := topicH(a1)
				if err != nil {
					return err
				}
				c, err := t.Relay()
				if err == nil {
					n.mu.Lock()
					n.relays[tname] = append(n.relays[tname], c)
					n.mu.Unlock()
				}
				return err
			}
		case 4:
			name = "RelayCancel"
			f = func() any {
				n.mu.Lock()
				rs := n.relays[tname]
				var c RelayCancelFunc
				if len(rs) > 0 {
					c = rs[len(rs)-1]
					n.relays[tname] = rs[:len(rs)-1]
				}
				n.mu.Unlock()
				if c != nil {
					c()
				}
				return nil
			}
		case 5:
			name = "Topic.Publish"
			data := w.mkData(20)
			f = func() any {
				t, err := topicH(a1)
				if err != nil {
					return err
				}
				return t.Publish(context.Background(), data)
			}
		case 6:
			name = "Topic.Publish(WithReadiness)"
			data := w.mkData(20)
			ctx, cancel := context.WithCancel(context.Background())
			cc.ownCtx, cc.consumer = cancel, true
			f = func() any {
				t, err := topicH(a1)
				if err != nil {
					return err
				}
				return t.Publish(ctx, data, WithReadiness(MinTopicSize(int(1+a2))))
			}
		case 7:
			name = "AddToBatch+PublishBatch"
			data := w.mkData(20)
			f = func() any {
				t, err := topicH(a1)
				if err != nil {
					return err
				}
				// a batch of its own per call: two pending calls sharing one batch would race for its
				// contents when they are woken together, and which of them publishes is not the
				// simulator's choice
				var batch MessageBatch
				if err := t.AddToBatch(context.Background(), &batch, data); err != nil {
					return err
				}
				return ps.PublishBatch(&batch)
			}
			nBatch++
		case 8:
			name = "RegisterTopicValidator"
			f = func() any {
				return ps.RegisterTopicValidator("extra-"+tname, func(ctx context.Context, p peer.ID, m *Message) bool { return true })
			}
		case 9:
			name = "UnregisterTopicValidator"
			f = func() any { return ps.UnregisterTopicValidator("extra-" + tname) }
		case 10:
			name = "EventHandler+NextPeerEvent"
			ctx, cancel := context.WithCancel(context.Background())
			cc.ownCtx, cc.consumer = cancel, true
			f = func() any {
				t, err := topicH(a1)
				if err != nil {
					return err
				}
				h, err := t.EventHandler()
				if err != nil {
					return err
				}
				s.mu.Lock()
				handlers = append(handlers, h)
				s.mu.Unlock()
				_, err = h.NextPeerEvent(ctx)
				return err
			}
		case 11:
			name = "ListPeers"
			f = func() any { return len(ps.ListPeers(tname)) }
		case 12:
			name = "GetTopics"
			f = func() any { return len(ps.GetTopics()) }
		case 13:
			name = "BlacklistPeer"
			f = func() any {
				if fp := w.fake(int(a2) % 3); fp != nil {
					ps.BlacklistPeer(fp.id)
				}
				return nil
			}
		case 14:
			name = "AddDirectPeer"
			f = func() any {
				if fp := w.fake(int(a2) % 3); fp != nil {
					return ps.AddDirectPeer(peer.AddrInfo{ID: fp.id})
				}
				return nil
			}
		case 15:
			name = "RemoveDirectPeer"
			f = func() any {
				if fp := w.fake(int(a2) % 3); fp != nil {
					return ps.RemoveDirectPeer(fp.id)
				}
				return nil
			}
		case 16:
			name = "Topic.SetScoreParams"
			f = func() any {
				t, err := topicH(a1)
				if err != nil {
					return err
				}
				return t.SetScoreParams(&TopicScoreParams{TopicWeight: 1, TimeInMeshQuantum: time.Second, InvalidMessageDeliveriesDecay: 0.5})
			}
		case 17:
			name = "PeerFeedback"
			f = func() any {
				if fp := w.fake(int(a2) % 3); fp != nil {
					return ps.PeerFeedback(tname, fp.id, PeerFeedbackUsefulMessage)
				}
				return nil
			}
		case 18:
			name = "Topic.Close"
			f = func() any {
				n.mu.Lock()
				t := n.topics[tname]
				n.mu.Unlock()
				if t == nil {
					return nil
				}
				err := t.Close()
				if err == nil {
					n.mu.Lock()
					delete(n.topics, tname)
					n.mu.Unlock()
				}
				return err
			}
		case 19:
			name = "PubSub.Subscribe+Publish (deprecated API)"
			data := w.mkData(12)
			f = func() any {
				sub, err := ps.Subscribe("dep-" + tname)
				if err != nil {
					return err
				}
				err = ps.Publish("dep-"+tname, data)
				sub.Cancel()
				return err
			}
		case 20:
			name = "Topic.ListPeers"
			f = func() any {
				t, err := topicH(a1)
				if err != nil {
					return err
				}
				return len(t.ListPeers())
			}
		case 21:
			name = "Topic.Publish(local, custom key)"
			data := w.mkData(16)
			f = func() any {
				t, err := topicH(a1)
				if err != nil {
					return err
				}
				k := genKey(newPrng(p.Seed, "custom"), 0)
				id, _ := peer.IDFromPrivateKey(k)
				return t.Publish(context.Background(), data, WithLocalPublication(a2%2 == 0), WithSecretKeyAndPeerId(k, id))
			}
		case 22:
			// on a handler that already exists (kind 10 creates its own): after the shutdown several
			// calls meet the same handler
			name = "NextPeerEvent (existing handler)"
			ctx, cancel := context.WithCancel(context.Background())
			cc.ownCtx, cc.consumer = cancel, true
			f = func() any {
				s.mu.Lock()
				var h *TopicEventHandler
				if len(handlers) > 0 {
					h = handlers[int(a2)%len(handlers)]
				}
				s.mu.Unlock()
				if h == nil {
					return nil
				}
				_, err := h.NextPeerEvent(ctx)
				return err
			}
		default:
			name = "TopicEventHandler.Cancel"
			f = func() any {
				s.mu.Lock()
				var h *TopicEventHandler
				if len(handlers) > 0 {
					h = handlers[int(a2)%len(handlers)]
				}
				s.mu.Unlock()
				if h != nil {
					h.Cancel()
				}
				return nil
			}
		}
		cc.kind = name
		if midCall && !cancelled {
			// park the event loop on the first request it receives from now on
			armed = true
		}
		cc.c = s.spawn(name, f)
		calls = append(calls, cc)
		s.settle()
		if midCall && !cancelled {
			midCall = false
			armed = false
			var lg *gate
			for _, g := range s.parkedGates() {
				if strings.HasPrefix(g.id, "loop-request") {
					lg = g
				}
			}
			if lg != nil {
				s.probe("cancel_mid_call/" + name)
				if d := p.ki("mid_call_wait_ms", 0); d > 0 {
					s.probe("cancel_mid_call_after_busy_loop")
					s.advance(time.Duration(d) * time.Millisecond)
				}
				shutdown()
				s.release(lg, 0)
				s.settle()
			} else {
				shutdown()
			}
		}
	}
	w.extraOps["api"] = func(it Item) { issue(int(it.a(0))%c14APIKinds, it.a(1), it.a(2)) }
	w.extraOps["inbound-storm"] = func(it Item) {
		fp := w.fake(int(it.a(0)))
		if fp == nil || !fp.outAlive() {
			return
		}
		s.probe("inbound_storm")
		for k := int64(0); k < it.a(1); k++ {
			fp.send(rpcIHave(w.topicName(k%2), fmt.Sprintf("storm-%d-%d", it.a(1), k)))
		}
	}
	w.extraOps["storm"] = func(it Item) {
		s.probe("publish_storm")
		for k := int64(0); k < it.a(1); k++ {
			issue(5, it.a(0), 0)
		}
	}
	shutdown = func() {
		if cancelled {
			return
		}
		// probes: what is in flight at the cancellation point
		if len(s.parkedGates()) > 0 {
			s.probe("cancel_with_validation_parked")
		}
		for _, fp := range w.allFakes() {
			if fp.stalledNow() {
				s.probe("cancel_with_writer_blocked")
			}
		}
		s.mu.Lock()
		if len(s.openReqs) > 0 {
			s.probe("cancel_with_stream_open_pending")
		}
		s.mu.Unlock()
		for _, e := range s.evq {
			if strings.HasPrefix(e.tag, "open-complete") {
				s.probe("cancel_with_stream_open_pending")
				break
			}
		}
		pending := 0
		for _, c := range calls {
			if !c.c.isDone(s) {
				pending++
			}
		}
		if pending > 0 {
			s.probe("cancel_with_api_calls_in_progress")
		}
		s.logf("SHUTDOWN (context cancelled)")
		s.fault("shutdown")
		n.cancel()
		cancelled = true
		cancelAt = s.now()
		s.settle()
	}
	// After the cancellation the scripted peers stay silent: a frame or a new stream that reaches a
	// reader goroutine then meets a select with two ready cases (buffered hand-off to the event loop,
	// cancelled context) and which one it takes is the Go runtime's coin, not the simulator's. The
	// API surface, time and the closing of streams are still exercised after the cancellation.
	w.skipItem = func(it Item) bool {
		if !cancelled {
			return false
		}
		switch it.Op {
		case "api", "storm", "adv", "release", "release-all", "disconnect", "stall":
			return false
		}
		s.probe("wire_input_skipped_after_cancel")
		return true
	}
	pos := p.ki("cancel_pos", 0)
	step := 0
	midEvent := false
	midTimer := false
	w.beforeItem = append(w.beforeItem, func(it Item) {
		if step == pos {
			switch {
			case p.kb("cancel_mid_call") && it.Op == "api":
				midCall = true // the api item itself performs the shutdown, in the middle of the call
			case p.kb("cancel_mid_call") && it.Op == "adv":
				// time passes: the loop is parked on the first request a timer hands it (heartbeat,
				// discovery poll, retry), the context is cancelled, then the loop is released
				// (or, as for every wire-level item, on the first peer / stream / wire event that falls
				// into the interval: whichever the loop meets first)
				midTimer = true
				s.mu.Lock()
				armed = true
				armedEvent = true
				s.mu.Unlock()
			case p.kb("cancel_mid_call") && it.Op != "release" && it.Op != "stall":
				// a wire-level item: the loop is parked on the first peer / stream / wire event this
				// item causes, the context is cancelled, then the loop is released
				midEvent = true
				s.mu.Lock()
				armedEvent = true
				s.mu.Unlock()
			default:
				shutdown()
			}
		}
		step++
	})
	w.afterItem = append(w.afterItem, func(it Item) {
		if midTimer {
			midTimer = false
			s.mu.Lock()
			armed = false
			armedEvent = false
			s.mu.Unlock()
			var lg *gate
			for _, g := range s.parkedGates() {
				if strings.HasPrefix(g.id, "loop-request") || strings.HasPrefix(g.id, "loop-event") {
					lg = g
				}
			}
			if lg != nil && strings.HasPrefix(lg.id, "loop-request") {
				s.probe("cancel_while_timer_request_waits")
			} else if lg != nil {
				s.probe("cancel_mid_event/adv")
			}
			shutdown()
			if lg != nil {
				s.release(lg, 0)
				s.settle()
			}
			return
		}
		if !midEvent {
			return
		}
		midEvent = false
		s.mu.Lock()
		armedEvent = false
		s.mu.Unlock()
		var lg *gate
		for _, g := range s.parkedGates() {
			if strings.HasPrefix(g.id, "loop-event") {
				lg = g
			}
		}
		if lg != nil {
			s.probe("cancel_mid_event/" + it.Op)
		}
		shutdown()
		if lg != nil {
			s.release(lg, 0)
			s.settle()
		}
	})
	w.atEnd = append(w.atEnd, func() {
		shutdown()
		// every call of the surface once more, the hand-off ones twice (a buffered hand-off channel
		// only blocks on the second call)
		for k := 0; k < c14APIKinds; k++ {
			issue(k, int64(k%2), int64(k))
		}
		for _, k := range []int{7, 7, 1, 3, 5, 10, 19, 22, 22, 22} {
			issue(k, 0, int64(k))
		}
		// more publications than the hand-off channel to the event loop has slots (32)
		for k := 0; k < 36; k++ {
			issue(5, int64(k%2), 0)
		}
		if p.kb("discovery") {
			// Subscribe/Relay hand requests to the discovery pipeline through a 32-slot channel
			for k := 0; k < 36; k++ {
				issue(1+2*(k%2), 0, 0)
			}
			s.probe("many_subscribes_after_cancel_with_discovery")
		}
		// an application validator that watches the context it is given has returned by now
		if !p.kb("val_ignore_ctx") {
			for _, g := range s.parkedGates() {
				if strings.HasPrefix(g.id, "val") {
					s.violate("C14", "validator-context", "C14/validator-context-not-cancelled", "a validator is still waiting on the context the library gave it although the instance context was cancelled at %v (gate %s)", cancelAt, g.id)
					break
				}
			}
		}
		// application callbacks that do not watch their context finish now (until none is parked:
		// one worker with inline validators enters them one after the other, and after the
		// cancellation it may still take queued messages while the queue is ready too; a bound of 4
		// rounds left a worker inside the application's validator and raised a false alarm once in
		// 1.2e6 thorough runs)
		for round := 0; round < 8192; round++ {
			g := s.parkedGates()
			if len(g) == 0 {
				break
			}
			for _, x := range g {
				s.release(x, 0)
			}
			s.settle()
		}
		s.advance(5 * time.Minute) // longer than every internal deadline
		s.settle()
		for _, c := range calls {
			if c.c.isDone(s) {
				continue
			}
			when := "issued before"
			if c.after {
				when = "issued after"
			}
			s.violate("C14", "returns", "C14/call-blocked/"+c.kind, "%s (%s the cancellation at %v) has not returned %v after the context was cancelled", c.kind, when, cancelAt, s.now()-cancelAt)
		}
		// Subscription.Next of the simulator's consumers (blocked with a context of their own that is
		// never cancelled before this point)
		for _, ss := range n.subs {
			ss.mu.Lock()
			ended := ss.ended
			ss.mu.Unlock()
			if !ended {
				s.violate("C14", "returns", "C14/call-blocked/Subscription.Next", "Subscription.Next (blocked when the context was cancelled at %v) has not returned %v later", cancelAt, s.now()-cancelAt)
				break
			}
		}
		// consumer-side waits return once their own context is cancelled
		for _, c := range calls {
			if c.consumer && c.ownCtx != nil {
				c.ownCtx()
			}
		}
		for _, ss := range n.subs {
			ss.cancel()
		}
		s.settle()
		for _, c := range calls {
			if c.consumer && !c.c.isDone(s) {
				s.violate("C14", "returns", "C14/call-blocked-after-own-cancel/"+c.kind, "%s did not return after its own context was cancelled", c.kind)
			}
		}
		for _, ss := range n.subs {
			ss.mu.Lock()
			ended := ss.ended
			ss.mu.Unlock()
			if !ended {
				s.violate("C14", "returns", "C14/call-blocked-after-own-cancel/Subscription.Next", "Subscription.Next did not return after its context was cancelled")
			}
		}
		if len(s.viol) > 0 {
			return
		}
		// close all host streams, let time pass, then no library goroutine may be left
		for _, fp := range w.allFakes() {
			fp.stall(false)
			if fp.connected() {
				fp.disconnect()
			}
		}
		s.run(s.now())
		s.advance(2 * time.Minute)
		s.settle()
		if gl := libraryGoroutines(); len(gl) > 0 {
			top := ""
			for _, l := range strings.Split(gl[0], "\n") {
				if strings.HasPrefix(l, "github.com/libp2p/go-libp2p-pubsub") && !strings.Contains(l, "verif") {
					top = l
					if i := strings.LastIndex(top, "("); i > 0 {
						top = top[:i]
					}
					top = strings.TrimPrefix(top, "github.com/libp2p/go-libp2p-pubsub")
					break
				}
			}
			s.violate("C14", "goroutines", "C14/goroutine-left/"+strings.Trim(top, "./"), "%d library goroutine(s) still alive 2 minutes after shutdown and closing of all streams; first:\n%s", len(gl), trunc2(normStack(gl[0]), 1500))
		} else {
			s.probe("goroutine_scan_clean")
		}
		s.nontrivial = true
		s.class = fmt.Sprintf("%s/%d/%x", n.router, pos, shortHash([]byte(c13ClassStrAll(w))))
	})
	w.run()
}

func trunc2(s string, n int) string {
	if len(s) > n {
		return s[:n] + "..."
	}
	return s
}

var (
	reStackAddr = regexp.MustCompile(`0x[0-9a-f]+`)
	reStackGoID = regexp.MustCompile(`goroutine [0-9]+`)
)

// normStack removes what differs between two executions of the same schedule (goroutine numbers,
// addresses) from a stack dump, so that the violation text - which is part of the event digest -
// replays exactly.
func normStack(s string) string {
	s = reStackAddr.ReplaceAllString(s, "0x?")
	s = reStackGoID.ReplaceAllString(s, "goroutine N")
	return s
}
