package pubsub

// C20 — the sequence-number validator never accepts a replay.
// World "val": the exported validator alone with a simulator-owned metadata store; several
// validations of one author run concurrently and are parked at the verifYield point between
// the optimistic check and the exclusive lock; the scheduler releases them one at a time.
// World "node": the validator installed as default validator of a real node (inline or
// asynchronous, 1..4 workers), scripted peers sending validly signed messages with drawn
// sequence numbers in every arrival order, seen TTL small so that replays arrive after expiry.

import (
	"context"
	"encoding/binary"
	"fmt"
	"sort"
	"sync"
	"sync/atomic"
	"time"

	pb "github.com/libp2p/go-libp2p-pubsub/pb"
	"github.com/libp2p/go-libp2p/core/peer"
)

func init() {
	registerProp("C20", genC20, map[string]func(*sim){"val": runC20Val, "node": runC20Node})
}

var c20Pool = []uint64{0, 1, 2, 3, 4, 5, 7, 100, 1 << 32, ^uint64(0) - 1, ^uint64(0)}

func genC20(seed uint64, tier string) *Plan {
	r := newPrng(seed, "c20")
	if r.chance(0.5) {
		p := &Plan{World: "val", Knobs: map[string]float64{}}
		p.Knobs["store_err"] = []float64{0, 0, 0, 0.1, 0.3}[r.intn(5)]
		if r.chance(0.3) {
			// the validator runs under a deadline (as with WithValidatorTimeout) and the store is
			// sometimes slower than that
			p.Knobs["ctx_timeout_ms"] = float64(r.rng(1, 500))
			p.Knobs["store_slow"] = []float64{0.1, 0.3, 0.6}[r.intn(3)]
		}
		na := r.rng(1, 3)
		p.Knobs["nauthors"] = float64(na)
		n := r.rng(3, 16)
		if tier == "thorough" {
			n = r.rng(3, 40)
		}
		started := 0
		for i := 0; i < n; i++ {
			if started > 0 && r.chance(0.45) {
				p.Items = append(p.Items, Item{Op: "release", A: []int64{int64(r.intn(6))}})
				continue
			}
			started++
			sq := c20Pool[r.intn(len(c20Pool))]
			if r.chance(0.4) {
				sq = uint64(r.intn(6))
			}
			p.Items = append(p.Items, Item{Op: "val", A: []int64{int64(r.intn(na)), int64(sq), int64(b2i(r.chance(0.75)))}})
		}
		return p
	}
	p := &Plan{World: "node", Knobs: map[string]float64{}, SK: map[string]string{}}
	p.SK["router"] = []string{"gossipsub", "floodsub"}[r.intn(2)]
	p.Knobs["ntopics"] = 1
	p.Knobs["hb_ms"] = 1000
	p.Knobs["workers"] = float64(r.rng(1, 4))
	p.Knobs["seqno_inline"] = float64(r.intn(2))
	p.Knobs["seen_ttl_ms"] = float64([]int{2000, 2000, 120000}[r.intn(3)])
	p.Knobs["c20_park"] = []float64{0, 0.5, 1}[r.intn(3)]
	p.Knobs["store_err"] = []float64{0, 0, 0, 0.1, 0.3}[r.intn(5)]
	p.Knobs["c20_score"] = float64(r.intn(2))
	if r.chance(0.5) {
		// an accepting topic validator next to the sequence-number validator (inline or asynchronous)
		p.Knobs["topic_val"] = 1
		p.Knobs["v3_inline"] = float64(r.intn(2))
		p.Knobs["p_park"] = []float64{0, 0, 0.4}[r.intn(3)]
	}
	genDegrees(r, p, 4)
	add := func(op string, a ...int64) { p.Items = append(p.Items, Item{Op: op, A: a}) }
	add("node-sub", 0)
	np := r.rng(2, 4)
	for i := 0; i < np; i++ {
		v := int64(r.intn(3))
		if i == 0 {
			v = 4
		}
		add("peer", int64(i), v, int64(r.intn(2)), int64(i))
		add("identify", int64(i))
		add("adv", 5)
		add("open", int64(i))
		add("sub", int64(i), 0)
	}
	n := r.rng(6, 26)
	if tier == "thorough" {
		n = r.rng(6, 60)
	}
	for k := 0; k < n; k++ {
		i := int64(r.intn(np))
		x := r.intn(100)
		switch {
		case x < 45:
			sq := c20Pool[r.intn(len(c20Pool))]
			if r.chance(0.5) {
				sq = uint64(r.intn(8))
			}
			add("pubseq", i, int64(r.intn(np)), int64(sq), int64(r.rng(8, 40)))
		case x < 60:
			add("resend", i, int64(r.intn(6)))
		case x < 85:
			add("release", int64(r.intn(6)))
		case x < 88:
			add("node-pub", 0, int64(r.rng(8, 40)))
		case x < 90:
			// the node's clock stepped back (the publication counter starts from the wall clock):
			// its next sequence numbers are not above what the store holds for it
			add("clock-back", int64(r.rng(0, 3)))
			add("node-pub", 0, int64(r.rng(8, 40)))
		case x < 92:
			add("adv", int64(r.rng(1, 400)))
		case x < 97:
			add("adv", int64(r.rng(62000, 70000)))
		default:
			add("restart")
		}
	}
	return p
}

type seqStore struct {
	mu  sync.Mutex
	m   map[peer.ID][]byte
	log []seqPut
	s   *sim
	// fault injection: each Get / Put fails with this probability (decided by the call's ordinal)
	pErr    float64
	ncalls  int
	failed  map[string]int // "author|value" -> number of failed Puts
	getErrs int
	nfail   map[string]int
	errTask map[any]bool // validations (context value c20TaskKey) that met a store error
	pSlow   float64      // Put outlives the caller's deadline with this probability (contexts with a deadline only)
	waiting int
}

var errSimStore = fmt.Errorf("sim: metadata store unavailable")

func (st *seqStore) fail(kind string) bool {
	st.ncalls++
	if st.pErr <= 0 {
		return false
	}
	if st.s.hf(fmt.Sprintf("storeerr|%s|%d", kind, st.ncalls)) < st.pErr {
		st.nfail[kind]++
		return true
	}
	return false
}

// report copies the fault counters into the run's statistics (root only).
func (st *seqStore) report() {
	st.mu.Lock()
	defer st.mu.Unlock()
	for k, v := range st.nfail {
		st.s.faults["store_"+k+"_error"] += v
	}
	st.nfail = map[string]int{}
}

type c20TaskKey struct{}

func newSeqStore(s *sim) *seqStore {
	return &seqStore{m: map[peer.ID][]byte{}, s: s, pErr: s.plan.k("store_err", 0), pSlow: s.plan.k("store_slow", 0), nfail: map[string]int{}, failed: map[string]int{}, errTask: map[any]bool{}}
}

type seqPut struct {
	author peer.ID
	val    uint64
	t      time.Duration
	n      int
}

func (st *seqStore) Get(ctx context.Context, p peer.ID) ([]byte, error) {
	st.mu.Lock()
	defer st.mu.Unlock()
	if st.fail("get") {
		st.getErrs++
		st.errTask[ctx.Value(c20TaskKey{})] = true
		return nil, errSimStore
	}
	return st.m[p], nil
}
func (st *seqStore) Put(ctx context.Context, p peer.ID, v []byte) error {
	st.mu.Lock()
	defer st.mu.Unlock()
	var x uint64
	if len(v) == 8 {
		x = binary.BigEndian.Uint64(v)
	}
	if _, ok := ctx.Deadline(); ok && st.pSlow > 0 && st.s.hf(fmt.Sprintf("storeslow|put|%d", st.ncalls)) < st.pSlow {
		// a slow store that honours the caller's context: the write is abandoned when the context
		// (validator timeout) expires first, and nothing is stored
		st.ncalls++
		st.nfail["put_abandoned_at_deadline"]++
		st.failed[fmt.Sprintf("%s|%d", p, x)]++
		st.errTask[ctx.Value(c20TaskKey{})] = true
		st.waiting++
		st.mu.Unlock()
		<-ctx.Done()
		st.mu.Lock()
		st.waiting--
		return ctx.Err()
	}
	if st.fail("put") {
		st.failed[fmt.Sprintf("%s|%d", p, x)]++
		st.errTask[ctx.Value(c20TaskKey{})] = true
		return errSimStore
	}
	st.m[p] = v
	st.log = append(st.log, seqPut{p, x, st.s.now(), len(st.log)})
	return nil
}

// checkStoreLog: per author the values written are strictly increasing.
func (st *seqStore) checkLog(s *sim) {
	last := map[peer.ID]uint64{}
	seen := map[peer.ID]bool{}
	for _, p := range st.log {
		if seen[p.author] && p.val <= last[p.author] {
			s.violate("C20", "nonce-monotone", "C20/nonce-decreased", "stored nonce of author %s went from %d to %d", shortPeer(p.author), last[p.author], p.val)
		}
		last[p.author], seen[p.author] = p.val, true
	}
}

func runC20Val(s *sim) {
	p := s.plan
	st := newSeqStore(s)
	val := NewBasicSeqnoValidator(st, discardLogger)
	kr := newPrng(p.Seed, "authors")
	var authors []peer.ID
	for i := 0; i < p.ki("nauthors", 1); i++ {
		id, _ := peer.IDFromPrivateKey(genKey(kr, 0))
		authors = append(authors, id)
	}
	type task struct {
		idx     int
		author  peer.ID
		seq     uint64
		park    bool
		done    bool
		verdict ValidationResult
		putsAt  int // number of puts in the log when it returned
		maxPrev uint64
		hadPrev bool
	}
	var tasks []*task
	var mu sync.Mutex
	cur := map[uint64]*task{} // goroutine-local via closure instead: see below
	_ = cur
	defer func() { verifYieldFn = nil }()
	parkNext := make(chan *task, 64)
	_ = parkNext
	// the hook needs to know which task is running: tasks announce themselves through a
	// goroutine-local variable captured in the closure that calls the validator
	type gctx struct{ t *task }
	var current sync.Map // goroutine key (task pointer passed via context value)
	_ = current
	verifYieldFn = func(point int) {}
	run := func(t *task) {
		ctx := context.WithValue(context.Background(), c20TaskKey{}, any(t))
		if d := p.ki("ctx_timeout_ms", 0); d > 0 {
			var cancel func()
			ctx, cancel = context.WithTimeout(ctx, time.Duration(d)*time.Millisecond)
			defer cancel()
		}
		sq := make([]byte, 8)
		binary.BigEndian.PutUint64(sq, t.seq)
		msg := &Message{Message: &pb.Message{From: []byte(t.author), Seqno: sq}}
		v := val(ctx, t.author, msg)
		mu.Lock()
		t.verdict, t.done = v, true
		st.mu.Lock()
		t.putsAt = len(st.log)
		st.mu.Unlock()
		mu.Unlock()
		s.note("c20 task %d author %s seq %d -> %d", t.idx, shortPeer(t.author), t.seq, v)
	}
	// The hook has no argument identifying the caller; tasks are started one per quiescence, so the
	// task that reaches the hook in a step is the one just started.
	var starting *task
	verifYieldFn = func(point int) {
		if point != verifSeqnoBeforeCommit {
			return
		}
		t := starting
		if t == nil || !t.park {
			return
		}
		s.park(fmt.Sprintf("seq|%d", t.idx), t, nil, nil)
	}
	parked2 := 0
	// a write that waits for its caller's deadline holds the validator's lock: let the deadline
	// pass before anything else contends for it (a goroutine blocked on a mutex is not durably
	// blocked, virtual time would stand still)
	slowWait := func() {
		for k := 0; k < 4; k++ {
			st.mu.Lock()
			n := st.waiting
			st.mu.Unlock()
			if n == 0 {
				return
			}
			s.probe("put_abandoned_at_validator_deadline")
			s.advance(time.Duration(p.ki("ctx_timeout_ms", 0)+1) * time.Millisecond)
			s.settle()
		}
	}
	for i, it := range p.Items {
		if len(s.viol) > 0 {
			break
		}
		s.steps++
		switch it.Op {
		case "val":
			t := &task{idx: i, author: authors[int(it.a(0))%len(authors)], seq: uint64(it.a(1)), park: it.a(2) != 0}
			tasks = append(tasks, t)
			starting = t
			s.logf("C20 start %d author %d seq %d park %v", i, it.a(0), t.seq, t.park)
			go run(t)
			s.settle()
			starting = nil
			if n := len(s.parkedGates()); n >= 2 {
				parked2++
				s.probe("two_validations_past_optimistic_check")
			}
		case "release":
			g := s.parkedGates()
			if len(g) == 0 {
				continue
			}
			x := g[int(it.a(0))%len(g)]
			t := x.meta.(*task)
			// probe: smaller number committing after a larger one passed its first check
			for _, o := range g {
				if o != x && o.meta.(*task).author == t.author && o.meta.(*task).seq < t.seq {
					s.probe("larger_commits_while_smaller_waits")
				}
			}
			s.release(x, 0)
			s.settle()
		}
		slowWait()
		st.mu.Lock()
		st.checkLog(s)
		st.mu.Unlock()
	}
	for round := 0; round < 8192 && len(s.parkedGates()) > 0; round++ {
		for _, g := range s.parkedGates() {
			s.release(g, 0)
			s.settle()
			slowWait()
		}
	}
	s.settle()
	// judge
	st.checkLog(s)
	accepted := map[peer.ID][]uint64{}
	for _, t := range tasks {
		if !t.done {
			s.violate("C20", "liveness", "C20/validation-stuck", "validation %d did not return", t.idx)
			continue
		}
		switch t.verdict {
		case ValidationAccept:
			accepted[t.author] = append(accepted[t.author], t.seq)
		case ValidationIgnore:
		default:
			s.violate("C20", "verdict", "C20/unexpected-verdict", "validation of seq %d returned %d", t.seq, t.verdict)
		}
	}
	// accepted set == put set, per author, and final store == max accepted
	puts := map[peer.ID][]uint64{}
	for _, pp := range st.log {
		puts[pp.author] = append(puts[pp.author], pp.val)
	}
	for _, a := range authors {
		acc := append([]uint64(nil), accepted[a]...)
		sort.Slice(acc, func(i, j int) bool { return acc[i] < acc[j] })
		pt := append([]uint64(nil), puts[a]...)
		sort.Slice(pt, func(i, j int) bool { return pt[i] < pt[j] })
		if fmt.Sprint(acc) != fmt.Sprint(pt) {
			s.violate("C20", "accept-commit", "C20/accepted-set-differs-from-committed", "author %s: accepted %v, committed to the store %v", shortPeer(a), acc, pt)
		}
		for i := 1; i < len(acc); i++ {
			if acc[i] == acc[i-1] {
				s.violate("C20", "replay", "C20/replay-accepted", "author %s: sequence number %d accepted twice", shortPeer(a), acc[i])
			}
		}
		if len(acc) > 0 {
			var stored uint64
			if b := st.m[a]; len(b) == 8 {
				stored = binary.BigEndian.Uint64(b)
			}
			if stored != acc[len(acc)-1] {
				s.violate("C20", "nonce-max", "C20/stored-nonce-not-max", "author %s: stored nonce %d, highest accepted %d", shortPeer(a), stored, acc[len(acc)-1])
			}
		}
	}
	// an Ignore must be justified: some committed value >= seq existed when it returned
	for _, t := range tasks {
		if !t.done || t.verdict != ValidationIgnore {
			continue
		}
		just := t.seq == 0
		st.mu.Lock()
		if st.errTask[any(t)] {
			// the store failed during this validation: it may only be ignored, never accepted
			just = true
			s.probe("ignore_after_store_error")
		}
		st.mu.Unlock()
		for _, pp := range st.log[:t.putsAt] {
			if pp.author == t.author && pp.val >= t.seq {
				just = true
			}
		}
		if !just {
			s.violate("C20", "spurious-ignore", "C20/spurious-ignore", "validation of seq %d (author %s) was ignored although no value >= %d had been committed", t.seq, shortPeer(t.author), t.seq)
		}
	}
	st.report()
	st.report()
	s.nontrivial = len(tasks) >= 2
	s.class = fmt.Sprintf("val/%x", shortHash([]byte(c02ClassStr(p))))
	s.sample = map[string]any{"tasks": len(tasks), "puts": len(st.log), "steps_with_two_parked": parked2}
}

func runC20Node(s *sim) {
	w := newNodeWorld(s)
	p := w.plan
	st := newSeqStore(s)
	scored := p.kb("c20_score") && p.ks("router", "gossipsub") == "gossipsub"
	opt := func() Option {
		seq := WithDefaultValidator(NewBasicSeqnoValidator(st, discardLogger), WithValidatorInline(p.kb("seqno_inline")))
		if !scored {
			return seq
		}
		// peer scoring with a counter of invalid deliveries that practically never decays: an
		// ignored replay must leave it at zero for everybody who forwarded a copy
		sp := &PeerScoreParams{
			AppSpecificScore:  func(pid peer.ID) float64 { return 0 },
			AppSpecificWeight: 1, DecayInterval: time.Second, DecayToZero: 0.0001, RetainScore: 10 * time.Minute,
			Topics: map[string]*TopicScoreParams{"t0": {TopicWeight: 1, TimeInMeshQuantum: time.Second,
				InvalidMessageDeliveriesWeight: -0.000001, InvalidMessageDeliveriesDecay: 0.9999999}},
			SeenMsgTTL: 10 * time.Minute,
		}
		th := &PeerScoreThresholds{GossipThreshold: -1000, PublishThreshold: -2000, GraylistThreshold: -3000, AcceptPXThreshold: 10, OpportunisticGraftThreshold: 1}
		return func(ps *PubSub) error {
			if err := seq(ps); err != nil {
				return err
			}
			return WithPeerScore(sp, th)(ps)
		}
	}
	if err := w.startNode(opt()); err != nil {
		s.violate("SIM", "setup", "SIM/setup", "node creation failed: %v", err)
		return
	}
	defer func() { verifYieldFn = nil }()
	parkP := p.k("c20_park", 0)
	nPark := 0
	verifYieldFn = func(point int) {
		if point != verifSeqnoBeforeCommit {
			return
		}
		s.mu.Lock()
		nPark++
		k := nPark
		s.mu.Unlock()
		if s.hf(fmt.Sprintf("c20park|%d", k)) < parkP {
			s.park("seqcommit", nil, nil, w.n.ctx.Done())
		}
	}
	type sentRec struct {
		author peer.ID
		seq    uint64
	}
	info := map[string]sentRec{}
	w.extraOps["pubseq"] = func(it Item) { // [forwarder, author, seqno, size]
		fp, au := w.fake(int(it.a(0))), w.fake(int(it.a(1)))
		if fp == nil || au == nil || !fp.outAlive() {
			return
		}
		sq := make([]byte, 8)
		binary.BigEndian.PutUint64(sq, uint64(it.a(2)))
		m := mkSignedMsg(au.priv, au.id, "t0", w.mkData(int(it.a(3))), sq)
		w.sent[midOf(m)] = m
		info[midOf(m)] = sentRec{au.id, uint64(it.a(2))}
		fp.send(rpcPub(m))
	}
	w.extraOps["clock-back"] = func(it Item) {
		st.mu.Lock()
		b := st.m[w.n.h.id]
		st.mu.Unlock()
		if len(b) != 8 {
			return
		}
		n := binary.BigEndian.Uint64(b)
		back := uint64(it.a(0)) + 1
		if n <= back {
			return
		}
		s.probe("clock_stepped_back")
		atomic.StoreUint64(&w.n.ps.counter, n-back)
	}
	w.extraOps["restart"] = func(it Item) {
		// crash + restart: a fresh instance with the same identity; only the metadata store survives
		s.probe("restart_with_persisted_store")
		w.restartNode(opt())
	}
	w.atEnd = append(w.atEnd, func() {
		for round := 0; round < 8192 && len(s.parkedGates()) > 0; round++ {
			for _, g := range s.parkedGates() {
				s.release(g, 0)
				s.settle()
			}
		}
		s.settle()
		st.checkLog(s)
		// Every delivered message was accepted by the validator (its number was committed, and commits
		// are strictly increasing: checkLog) and no number of an author is delivered twice. Delivery
		// ORDER is not compared: validators that run after the sequence-number validator, and the
		// hand-off from validation workers to the event loop, may legitimately reorder two accepted
		// messages.
		committedD := map[string]bool{}
		for _, pp := range st.log {
			committedD[fmt.Sprintf("%s|%d", pp.author, pp.val)] = true
		}
		for _, n := range s.nodes {
			for _, ss := range n.subs {
				have := map[string]bool{}
				for _, m := range ss.messages() {
					a := peer.ID(m.GetFrom())
					var x uint64
					if len(m.GetSeqno()) == 8 {
						x = binary.BigEndian.Uint64(m.GetSeqno())
					}
					k := fmt.Sprintf("%s|%d", a, x)
					if have[k] {
						s.violate("C20", "replay", "C20/node/replay-delivered", "subscription %d received sequence number %d of author %s twice", ss.id, x, shortPeer(a))
					}
					if !committedD[k] {
						s.violate("C20", "replay", "C20/node/unaccepted-delivered", "subscription %d received seq %d of author %s which the validator never accepted (never committed to the store)", ss.id, x, shortPeer(a))
					}
					have[k] = true
					s.probe("delivery_checked")
				}
			}
		}
		// ignored messages are neither forwarded nor penalised: every message on the wire must have
		// been committed to the store
		committed := map[string]bool{}
		for _, pp := range st.log {
			committed[fmt.Sprintf("%s|%d", pp.author, pp.val)] = true
		}
		for _, fp := range w.allFakes() {
			for _, o := range fp.recv {
				for _, m := range o.rpc.GetPublish() {
					if len(m.GetSeqno()) != 8 {
						continue
					}
					r := sentRec{peer.ID(m.GetFrom()), binary.BigEndian.Uint64(m.GetSeqno())}
					s.probe("wire_copy_checked")
					if !committed[fmt.Sprintf("%s|%d", r.author, r.seq)] {
						s.violate("C20", "forward", "C20/node/ignored-forwarded", "message seq %d of author %s was forwarded to %s although the validator never accepted it", r.seq, shortPeer(r.author), fp.name)
					}
				}
			}
		}
		if gs := w.n.gs(); scored && gs != nil && gs.score != nil {
			gs.score.Lock()
			for _, fp := range w.allFakes() {
				if st := gs.score.peerStats[fp.id]; st != nil && st.topics["t0"] != nil {
					s.probe("invalid_delivery_counter_checked")
					if v := st.topics["t0"].invalidMessageDeliveries; v > 0.01 {
						s.violate("C20", "penalty", "C20/node/forwarder-penalised", "peer %s has an invalid-delivery counter of %.2f although every message it sent was valid (accepted or an ignored replay)", fp.name, v)
					}
				}
			}
			gs.score.Unlock()
		}
		w.n.mu.Lock()
		for _, r := range w.n.raw {
			if r.kind == "reject" && r.reason == RejectValidationFailed {
				if _, ok := info[r.mid]; ok {
					s.violate("C20", "penalty", "C20/node/replay-rejected-not-ignored", "a replayed message was rejected (penalised) instead of ignored")
				}
			}
		}
		w.n.mu.Unlock()
		st.report()
		s.nontrivial = len(info) > 0
		s.class = fmt.Sprintf("node/%s/%x", w.n.router, shortHash([]byte(c13ClassStrAll(w))))
	})
	w.run()
}
