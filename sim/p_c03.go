package pubsub

// C03 — only authentic messages are accepted under the configured signature policy.
// W-NODE: one real node under each of the four signature policies crossed with four author
// modes; scripted peers send validly built messages and tampered / recombined / fuzzed variants
// of them, authentic and forged copies of one message racing through 1..4 validation workers and
// parked validators. Oracle: an independent re-implementation of the acceptance rule (own protobuf
// encoder for the signed bytes, libp2p crypto for the primitive) applied to every message the node
// delivers to the application or forwards to another peer, and to everything it publishes itself.

import (
	"bytes"
	"context"
	"encoding/base64"
	"encoding/binary"
	"fmt"
	"sort"

	pb "github.com/libp2p/go-libp2p-pubsub/pb"
	"github.com/libp2p/go-libp2p/core/crypto"
	"github.com/libp2p/go-libp2p/core/peer"
)

func init() {
	registerProp("C03", genC03, map[string]func(*sim){"node": runC03})
}

// two fixed RSA-2048 keys (their peer IDs are hashes: the key must travel in the message)
var c03RSA = []string{
	"CAASpwkwggSjAgEAAoIBAQDodw+ughQy+odD5rwRCfa0vZ15Yc/RLVCT5eT8dbiBCs7SsBLi9Ic7Usk0MfHAa/bZ2N2LBGaQO8GEhj1YPj9dLwIjiGau7Nv9vBd3VT0LWs+KcHZoVD0UQAn6y+JDHhJVNFtxhHfICdeOA2OtjWy96SQGqbrhbbGIuVsk7esG0hBy/T2w5WJjU1TaB0ob6jRY5I9c5+hD2SoIkh9KPi4N8TmIeqQ5eqtCf5fwSj/L/hWNisW5RlLsWzOFonXMcAL0ieqL0WBFQcktEX5E/LJHbaSz9Our6cOrszsogYgsYOp7BUut+qpg5JENzGylT4HDlHxIH+AVNxMoaEMjbciRAgMBAAECggEADlkv+HparxFX2UT0AXy7E6ma/0+eXUfF4BUZ6svE10EwpiA8UDId6TdZSC2XgYQgdM6OERs0ze0ESy7ieTCBZnnk8MbF6MDhrMIH9EOIfKuOoRnDMzoU2YvA2fAs723bHZN5W/K8VnZmDcPPipoutrOd18Pw7yJfSYRAWBGP1sgxInTCrNpRJAQNPxbu93bbtznLtSXaFrOSi25nred+YvWnwja2h/RLf0L3nWQo3LUvUAXInMdrRIKCBQ88AWpradLKoKs2PIbtrXKcBtxjXqRA7GyfnyCH3w4+Ff3gGsC+7rn7BVf+k1SbQ3dwwfV8WmBAKec0ujWobiYDL+zjAQKBgQD1SbOjTikls1x4g8FUC4lP7wA6lVXSp6YHQgM9j5QckmztyWLnExUjF7rPeVeZDrlsgWMhqjTia+wm4jYF3/wfqXSDNUHCMYjmz53jKg9X0ufHu2jqY50C/8YDIPcCL3br54ndjVXNvyN46WADqCibXYJsRmz/EaDe3kj8VPDDEQKBgQDyngBlgsxP578nAW9SroKAZol69+bPOYrbxLfWLwE59vw3kQWz4kGm23Mk2vxZhd2/fjS/k5A66Sur7NPFdAIcQE3ZmoZJ7ldjFLW3umnUkFBBeUSLUzkMCjEhtNAXqAqFB3GKumWAdXlioBZbyMZ2xVdVoqKxdbr6/QUH+7mtgQKBgCFD9ZDYMMxkHs5ZUAbN6blleGp5hkIjamjhkv7uUe/uC8fT4A3mkJ9JwJQSqMahMJR+l6shIjry1/wOAbWaQt8oZBzHRDvJ6/8heRAtzBblC3oS+I+RIuIdPgV+mwE43q/vnsrlOBXHLlBflh3o2Fj5vY5hnraY9XBERTGzc1OBAoGABuhsxnck7hmBHdEypD4HxTQmMfQhBEF1LLC7M0P/WvEnWUWtzeNhTyjsbF431Sy0laE4S0QeVS8SaUDC/tpAvSEvlkSKEkzQ/Cc4zVRncv/w6QxU4UqrUyZvI7CMREAqnIMLvpF0FmZB4IcCW/apf/Q6elu5Gihp/H97xzBppwECgYEA0MMI3XsYmFYrqLFmFhpSVtcrS9kWdWKeVOd/+DvucVEzMFLYWrv4JJJiKivJciBUcoVz8uRzTkdFO2Ilst695DIwoSx/tfGPpTE01sA5RzwYZLFM6guTity8LRDmWCMZVWwDyhfeOQ5E5mc88RvFlM9DlyN9QzUqvkuD1+WYZcQ=",
	"CAASpwkwggSjAgEAAoIBAQC0Zjcve2AbNajzybhmgR5SkYBc0xvsiK6o2Jcvc3GmhJ6oEYu2ArqaVUnwfhcYb/GmZ85HlYOKtc8uvLWmnNN3eJF7r0sIpVz47WrC7uHuk2q7bpvnVocVVW8mK5un7T/5ikh23NX684HMPGfNANV4P7t6GP0WZxwsaKxIDzj8XF1XuOG63fQB0ygwGjeZ4x6jT2TWQuNzhofopGVUSe8glk5w1feiu/IbmEuFA5zI4DvKgqqctlo+yt0kQpZuaXPeJXzJULR/N4RlXjLSDGzkoqABJ6f3z0dQpS7oguk21a3g/UlPp0irFpYkqrfzLV+JaTF3AR49okJuhYK04ZHbAgMBAAECggEACSr8rC9GWUhz13F6Xpmg2d9gUtdW68FsGiA2JrvLAp4D/IfPvgzYQOM+u7fpiPaZC4G3bDayYnuoFZ75HruJMuDv7wVskcbqbHgpKdKME6mh2sUQ3t15EshIIS949jxkOO4iWqNEeKY+NwvtPPAWHGNYx466v5Qdf9N3lfEegaypWiz1PEhkWyDmGHMS+vHZjnF5a+dLYkVMfrxeg4tSWZ/pTUTI+TejKizFveWjRExmXsQKCHNZKyyChZDtxF94bLGDHN6ZMN9lRM2QX+8SzDiGsmwKxfk/gepRmf1/tF5xV2VbIeT+tP3z/LmxSzJyZbp3MXIs1UdtA6SbSqI1AQKBgQDQ+Ow++sJdEXmcBtYQEEpDY6KRemyY12trJ5cExyXW2K/6iwJSSlAZpZnlx+SQWYBFGvIW/LrVO1qbzOcBF4ZcAkRcZwyHPd7ReJodaM6j/t3vowd6VhoXBLMjNzSb+NPMjo9Ww/LkM+tnORZg5gZW4RO4WPt2mCidFnvhnUVEWwKBgQDc/yxcL+E/YfL6yVQAVf0rmByAq9PDfL1LwsjPv3+5RFQb8Wk31K1dbtmtvRuEAhIMy1OzhCTmsms4lqCkaYAb82eDamPPF7QAV2c4LSlYLagOXBnoFbUyothFr2BnQ0jBOJSlU0MUsrPBTroETyLiNmsEI3dn9Bn9h/+gcYhggQKBgCbKHegu2cc2yDELH88Jhw9tPi7s352bVwgj6Cdt4/s2a6wBA6RMwQORtrhtW2LkCihJsShNL00HYHFNHpAYUstfbFsOkcfE10hgr5LH8puEYqPpyiiONPeS2sGtrKlLDd2JlNfRNZPgg1C8ywefiwuzadqtQbgo1FkcZFBjxgjDAoGBAI/bV2AHFuQweX/AsHqrfury0JL9xxJ4z6xSdm+to5HRJcMuyaQ7QEMS1oYfFJtA0ckcTjcMLQ0zVVJ30shTmL4ZGufTyHbVYinau2k5FLG+vqfiUkbeYp48nPX3rJRrmx+UGkboRUFi9lo+Sh5l+Tox3EXMZHz5zDVaYw9o+DKBAoGALALuYLO/ipBMlOXIH660umjkt3ZdbMvX4YpkH6Yxw/shjZIwQvePJA4UVD3Ze3rhYleKvcFwTbgLkTMFIS4BlLMi2d/fg8UNvBhGjQeJg0vtJaX7h8oxJKaSY9mRsnDvyhhg9BTfkNbKe4lYC9KLVLZKtHn5Ns5ivyU6HReAZQw=",
}

const c03Tampers = 26

func genC03(seed uint64, tier string) *Plan {
	r := newPrng(seed, "c03")
	p := &Plan{World: "node", Knobs: map[string]float64{}, SK: map[string]string{}}
	p.SK["router"] = []string{"gossipsub", "gossipsub", "floodsub", "randomsub"}[r.intn(4)]
	p.SK["sign"] = []string{"strict", "strictnosign", "laxsign", "laxnosign"}[r.intn(4)]
	p.SK["author"] = []string{"default", "custom", "perpublish", "none"}[r.intn(4)]
	if r.chance(0.3) {
		p.SK["sign_via"] = "legacy" // WithMessageSigning / WithStrictSignatureVerification instead of WithMessageSignaturePolicy
	}
	p.Knobs["content_id"] = float64(b2i(p.SK["author"] == "none" || p.SK["sign"] == "strictnosign" || p.SK["sign"] == "laxnosign" || r.chance(0.2)))
	p.Knobs["ntopics"] = 2
	p.Knobs["hb_ms"] = 1000
	p.Knobs["workers"] = float64(r.rng(1, 4))
	p.Knobs["flood_publish"] = 1
	p.Knobs["node_key_type"] = float64(r.intn(2))
	if r.chance(0.4) {
		p.Knobs["topic_val"] = 1
		p.Knobs["topic_val_all"] = 1
		p.Knobs["v3_inline"] = float64(r.intn(2))
		p.Knobs["p_park"] = []float64{0, 0.5}[r.intn(2)]
		if r.chance(0.4) {
			// back-pressure: one worker held by an inline validator, a validation queue of 1..2
			p.Knobs["v3_inline"] = 1
			p.Knobs["workers"] = 1
			p.Knobs["p_park"] = []float64{0.5, 0.9}[r.intn(2)]
			p.Knobs["val_queue"] = float64(r.rng(1, 2))
		}
	}
	genDegrees(r, p, 4)
	add := func(op string, a ...int64) { p.Items = append(p.Items, Item{Op: op, A: a}) }
	add("node-sub", 0)
	add("node-sub", 1)
	np := r.rng(2, 4)
	for i := 0; i < np; i++ {
		add("peer", int64(i), int64(r.intn(5)), int64(r.intn(2)), int64(i))
		add("identify", int64(i))
		add("adv", 5)
		add("open", int64(i))
		add("sub", int64(i), 0)
		add("sub", int64(i), 1)
		if r.chance(0.7) {
			add("graft", int64(i), 0)
		}
	}
	add("adv", int64(r.rng(200, 1500)))
	n := r.rng(8, 30)
	if tier == "thorough" {
		n = r.rng(8, 70)
	}
	nbase := 0
	for k := 0; k < n; k++ {
		i := int64(r.intn(np))
		x := r.intn(100)
		switch {
		case x < 22 || nbase == 0:
			// a fresh validly built message: [forwarder, author 0..6, form 0..3, topic]
			// (40%: built but not sent yet, so that a tampered variant reaches the node before the
			// authentic copy - otherwise every variant that keeps author and sequence number is a
			// duplicate by message ID and is dropped before its signature is looked at)
			add("c03base", i, int64(r.intn(7)), int64(r.intn(4)), int64(r.intn(2)), int64(b2i(r.chance(0.4))))
			nbase++
		case x < 62:
			// a tampered variant of an earlier message: [forwarder, base, tamper, parameter]
			add("c03tamper", i, int64(r.intn(nbase)), int64(r.intn(c03Tampers)), int64(r.intn(1<<16)))
			if r.chance(0.5) {
				// the authentic copy races with it through another peer
				add("c03tamper", int64(r.intn(np)), int64(r.intn(nbase)), 0, 0)
			}
		case x < 70:
			add("c03fuzz", i, int64(r.intn(1<<30)))
		case x < 80:
			add("node-pub", int64(r.intn(2)), int64(r.rng(8, 60)))
		case x < 86:
			// [topic, key kind, pairing: 0 = key and peer ID belong together, 1..2 = the peer ID of another identity]
			add("c03pubkey", int64(r.intn(2)), int64(r.intn(3)), int64([]int{0, 0, 1, 2}[r.intn(4)]))
		case x < 92:
			add("release", int64(r.intn(4)))
		default:
			add("adv", int64(r.rng(1, 1200)))
		}
	}
	add("release-all")
	add("adv", 1500)
	return p
}

// ---------------------------------------------------------------------------------------------
// independent rule

// c03Encode: protobuf encoding of a Message without its signature and key fields, fields in
// number order, unknown fields last (what the sender signs).
func c03Encode(m *pb.Message, withSigKey bool) []byte {
	var b []byte
	put := func(field int, v []byte) {
		b = append(b, byte(field<<3|2))
		b = binary.AppendUvarint(b, uint64(len(v)))
		b = append(b, v...)
	}
	if m.From != nil {
		put(1, m.From)
	}
	if m.Data != nil {
		put(2, m.Data)
	}
	if m.Seqno != nil {
		put(3, m.Seqno)
	}
	if m.Topic != nil {
		put(4, []byte(*m.Topic))
	}
	if withSigKey {
		if m.Signature != nil {
			put(5, m.Signature)
		}
		if m.Key != nil {
			put(6, m.Key)
		}
	}
	b = append(b, m.XXX_unrecognized...)
	return b
}

func c03Sign(k crypto.PrivKey, m *pb.Message) {
	sig, err := k.Sign(append([]byte("libp2p-pubsub:"), c03Encode(m, false)...))
	if err != nil {
		panic(err)
	}
	m.Signature = sig
}

// c03SigOK: the signature verifies under the key bound to the claimed author.
func c03SigOK(m *pb.Message) (bool, string) {
	pid, err := peer.IDFromBytes(m.From)
	if err != nil {
		return false, "author is not a peer ID"
	}
	var pk crypto.PubKey
	if m.Key == nil {
		pk, err = pid.ExtractPublicKey()
		if err != nil || pk == nil {
			return false, "no key attached and none embedded in the author's ID"
		}
	} else {
		pk, err = crypto.UnmarshalPublicKey(m.Key)
		if err != nil {
			return false, "attached key does not parse"
		}
		id2, err := peer.IDFromPublicKey(pk)
		if err != nil || id2 != pid {
			return false, "attached key does not belong to the author"
		}
	}
	ok, err := pk.Verify(append([]byte("libp2p-pubsub:"), c03Encode(m, false)...), m.Signature)
	if err != nil || !ok {
		return false, "signature does not verify"
	}
	return true, ""
}

type c03Cfg struct {
	policy    string
	anonymous bool // the node has no author (WithNoAuthor)
	host      peer.ID
}

// c03MayAccept: may a message with these fields, received from the network, be delivered or
// forwarded by a node configured like cfg? (fromNetwork=false: the node's own publication as seen
// by a receiver with the same configuration.)
func c03MayAccept(m *pb.Message, cfg c03Cfg, fromNetwork bool) (bool, string) {
	if fromNetwork && len(m.From) > 0 && peer.ID(m.From) == cfg.host {
		return false, "names the local node as author"
	}
	switch cfg.policy {
	case "strict":
		if m.Signature == nil {
			return false, "unsigned under StrictSign"
		}
		return c03SigOK(m)
	case "laxsign", "laxnosign":
		if m.Signature != nil {
			return c03SigOK(m)
		}
		return true, ""
	case "strictnosign":
		if m.Signature != nil {
			return false, "carries a signature under StrictNoSign"
		}
		if cfg.anonymous && (m.From != nil || m.Seqno != nil || m.Key != nil) {
			return false, "carries author, sequence number or key in anonymous StrictNoSign mode"
		}
		return true, ""
	}
	return true, ""
}

// ---------------------------------------------------------------------------------------------

type c03Author struct {
	priv crypto.PrivKey
	id   peer.ID
	kind string
}

func runC03(s *sim) {
	w := newNodeWorld(s)
	p := w.plan
	policy, amode := p.ks("sign", "strict"), p.ks("author", "default")
	// authors: the scripted peers' own keys (ed25519), two secp256k1, two RSA (key travels)
	kr := newPrng(p.Seed, "c03authors")
	var authors []c03Author
	mk := func(k crypto.PrivKey, kind string) {
		id, err := peer.IDFromPrivateKey(k)
		if err != nil {
			panic(err)
		}
		authors = append(authors, c03Author{k, id, kind})
	}
	for i := 0; i < 3; i++ {
		mk(genKey(kr, 0), "ed25519")
	}
	mk(genKey(kr, 1), "secp256k1")
	mk(genKey(kr, 1), "secp256k1")
	for _, b64 := range c03RSA {
		kb, _ := base64.StdEncoding.DecodeString(b64)
		k, err := crypto.UnmarshalPrivateKey(kb)
		if err != nil {
			panic(err)
		}
		mk(k, "rsa")
	}
	custom := authors[1+int(p.Seed%2)*5] // an ed25519 or an RSA identity as custom author
	var extra []Option
	anonymous := false
	switch amode {
	case "custom":
		extra = append(extra, WithMessageAuthor(custom.id))
		w.afterHostStart = func(h *simHost) {
			h.ps.AddPrivKey(custom.id, custom.priv)
			h.ps.AddPubKey(custom.id, custom.priv.GetPublic())
		}
	case "none":
		extra = append(extra, WithNoAuthor())
		anonymous = true
	}
	if p.kb("content_id") {
		extra = append(extra, WithMessageIdFn(func(m *pb.Message) string {
			return "c:" + m.GetTopic() + "|" + string(m.GetData()) + "|" + string(m.GetFrom()) + "|" + string(m.GetSeqno())
		}))
	}
	if err := w.startNode(extra...); err != nil {
		s.violate("SIM", "setup", "SIM/setup", "node creation failed: %v", err)
		return
	}
	// effective policy: WithNoAuthor clears the signing bit
	eff := policy
	if anonymous {
		switch policy {
		case "strict":
			eff = "strictnosign"
		case "laxsign":
			eff = "laxnosign"
		}
	}
	cfg := c03Cfg{policy: eff, anonymous: anonymous, host: w.n.h.id}
	own := map[string]bool{} // payloads of the node's own publications
	type variant struct {
		kind string
		m    *pb.Message
	}
	sentKinds := map[string]string{} // wire bytes -> tamper kind (reporting only)
	var bases []*pb.Message
	seq := uint64(1000)
	topicOf := func(i int64) string { return w.topicName(i) }
	send := func(fp *fakePeer, m *pb.Message, kind string) {
		if fp == nil || !fp.outAlive() {
			return
		}
		sentKinds[string(c03Encode(m, true))] = kind
		ok, _ := c03MayAccept(m, cfg, true)
		if ok {
			s.probe("c03_sent_acceptable")
		} else {
			s.probe("c03_sent_unacceptable")
		}
		fp.send(rpcPub(m))
	}
	w.extraOps["c03base"] = func(it Item) {
		fp := w.fake(int(it.a(0)))
		au := authors[int(it.a(1))%len(authors)]
		topic := topicOf(it.a(3))
		seq++
		sq := make([]byte, 8)
		binary.BigEndian.PutUint64(sq, seq)
		m := &pb.Message{Data: w.mkData(24), Topic: &topic}
		switch it.a(2) {
		case 0, 1: // signed
			m.From, m.Seqno = []byte(au.id), sq
			if au.kind == "rsa" {
				kb, _ := crypto.MarshalPublicKey(au.priv.GetPublic())
				m.Key = kb
			}
			c03Sign(au.priv, m)
		case 2: // unsigned with author
			m.From, m.Seqno = []byte(au.id), sq
		default: // anonymous
		}
		bases = append(bases, m)
		if it.a(4) == 0 {
			send(fp, m, "authentic")
		} else {
			s.probe("c03_base_withheld")
		}
	}
	w.extraOps["c03tamper"] = func(it Item) {
		fp := w.fake(int(it.a(0)))
		if len(bases) == 0 {
			return
		}
		base := bases[int(it.a(1))%len(bases)]
		m := *base
		m.XXX_unrecognized = append([]byte(nil), base.XXX_unrecognized...)
		par := int(it.a(3))
		other := authors[par%len(authors)]
		kind := ""
		otherKey := func() []byte { kb, _ := crypto.MarshalPublicKey(other.priv.GetPublic()); return kb }
		switch it.a(2) % c03Tampers {
		case 0:
			kind = "authentic-copy"
		case 1:
			kind = "data-flipped"
			d := append([]byte(nil), m.Data...)
			if len(d) > 0 {
				d[par%len(d)] ^= 0x01
			}
			m.Data = d
		case 2:
			kind = "topic-changed"
			t := topicOf(1)
			if m.GetTopic() == t {
				t = topicOf(0)
			}
			m.Topic = &t
		case 3:
			kind = "from-changed"
			m.From = []byte(other.id)
		case 4:
			kind = "seqno-changed"
			sq := append([]byte(nil), m.Seqno...)
			if len(sq) == 0 {
				sq = []byte{1}
			} else {
				sq[len(sq)-1] ^= byte(1 + par%7)
			}
			m.Seqno = sq
		case 5:
			kind = "signature-stripped"
			m.Signature = nil
		case 6:
			kind = "key-stripped"
			m.Key = nil
		case 7:
			kind = "wrong-key-attached"
			m.Key = otherKey()
		case 8:
			kind = "matching-key-attached"
			if pid, err := peer.IDFromBytes(m.From); err == nil {
				for _, a := range authors {
					if a.id == pid {
						kb, _ := crypto.MarshalPublicKey(a.priv.GetPublic())
						m.Key = kb
					}
				}
			}
		case 9:
			kind = "signature-swapped"
			o := bases[par%len(bases)]
			m.Signature = o.Signature
		case 10:
			kind = "resigned-by-other-no-key"
			m.Key = nil
			c03Sign(other.priv, &m)
		case 11:
			kind = "resigned-by-other-with-its-key"
			m.Key = otherKey()
			c03Sign(other.priv, &m)
		case 12:
			kind = "reauthored-by-other"
			m.From = []byte(other.id)
			m.Key = nil
			if other.kind == "rsa" {
				m.Key = otherKey()
			}
			c03Sign(other.priv, &m)
		case 13:
			kind = "unknown-field-after-signing"
			m.XXX_unrecognized = append(m.XXX_unrecognized, 0x7a, 0x02, 'h', 'i')
		case 14:
			kind = "unknown-field-signed"
			m.XXX_unrecognized = append(m.XXX_unrecognized, 0x7a, 0x02, 'o', 'k')
			if pid, err := peer.IDFromBytes(m.From); err == nil && m.Signature != nil {
				for _, a := range authors {
					if a.id == pid {
						c03Sign(a.priv, &m)
					}
				}
			}
		case 15:
			kind = "names-local-node-signed-by-other"
			m.From = []byte(w.n.h.id)
			m.Key = otherKey()
			c03Sign(other.priv, &m)
		case 16:
			kind = "names-local-node-unsigned"
			m.From = []byte(w.n.h.id)
			m.Signature, m.Key = nil, nil
		case 17:
			kind = "from-garbage"
			m.From = []byte{0xff, 0x01, byte(par)}
		case 18:
			kind = "unsigned-with-author"
			m.Signature, m.Key = nil, nil
			if m.From == nil {
				m.From, m.Seqno = []byte(other.id), []byte{0, 0, 0, 0, 0, 0, 0, byte(par)}
			}
		case 19:
			kind = "anonymous"
			m.From, m.Seqno, m.Signature, m.Key = nil, nil, nil, nil
		case 20:
			kind = "anonymous-plus-one-auth-field"
			m.From, m.Seqno, m.Signature, m.Key = nil, nil, nil, nil
			switch par % 3 {
			case 0:
				m.Key = otherKey()
			case 1:
				m.Seqno = []byte{0, 0, 0, 0, 0, 0, 0, 9}
			default:
				m.From = []byte(other.id)
			}
		case 21:
			kind = "empty-signature"
			m.Signature = []byte{}
		case 22:
			kind = "signature-truncated"
			if len(m.Signature) > 1 {
				m.Signature = m.Signature[:len(m.Signature)-1-par%(len(m.Signature)-1)]
			}
		case 23:
			kind = "key-garbage"
			m.Key = []byte{0x08, 0x01, 0x12, 0x03, 1, 2, byte(par)}
		case 24:
			kind = "signed-by-local-identity-claim"
			// a forger claims the node's custom / host identity with its own key attached
			m.From = []byte(w.n.ps.signID)
			if len(m.From) == 0 {
				m.From = []byte(w.n.h.id)
			}
			m.Key = otherKey()
			c03Sign(other.priv, &m)
		default:
			kind = "seqno-stripped-resigned-wrongly"
			m.Seqno = nil
		}
		send(fp, &m, kind)
	}
	w.extraOps["c03fuzz"] = func(it Item) {
		fp := w.fake(int(it.a(0)))
		r := newPrng(p.Seed, fmt.Sprintf("c03fuzz%d", it.a(1)))
		topic := topicOf(int64(r.intn(2)))
		m := &pb.Message{Data: w.mkData(16), Topic: &topic}
		rb := func() []byte {
			switch r.intn(4) {
			case 0:
				return nil
			case 1:
				return []byte{}
			case 2:
				return r.bytes(r.rng(1, 8))
			}
			return r.bytes(r.rng(30, 80))
		}
		m.From, m.Seqno, m.Signature, m.Key = rb(), rb(), rb(), rb()
		if r.chance(0.4) {
			m.From = []byte(authors[r.intn(len(authors))].id)
		}
		send(fp, m, "fuzzed")
	}
	w.extraOps["c03pubkey"] = func(it Item) {
		// publication with a per-publish key (valid pair, or - expected to fail - a nil key)
		au := authors[[]int{0, 3, 5}[int(it.a(1))%3]] // ed25519, secp256k1 (key embedded in the ID), RSA (key must travel)
		topic := topicOf(it.a(0))
		data := w.mkData(20)
		own[string(data)] = true
		if it.a(2) != 0 {
			// a key with the peer ID of somebody else: whatever Publish answers, nothing that fails
			// the receiver's rule may be delivered or forwarded (judge, below)
			other := authors[([]int{0, 3, 5}[int(it.a(1))%3]+int(it.a(2)))%len(authors)]
			if other.id != au.id {
				s.probe("c03_per_publish_key_with_foreign_peer_id")
				s.do("Publish(WithSecretKeyAndPeerId "+au.kind+" key, foreign peer ID) "+topic, func() any {
					t, err := w.n.topic(topic)
					if err != nil {
						return err
					}
					return t.Publish(context.Background(), data, WithSecretKeyAndPeerId(au.priv, other.id))
				})
				return
			}
		}
		c := s.do("Publish(WithSecretKeyAndPeerId "+au.kind+") "+topic, func() any {
			t, err := w.n.topic(topic)
			if err != nil {
				return err
			}
			return t.Publish(context.Background(), data, WithSecretKeyAndPeerId(au.priv, au.id))
		})
		// Under a signing policy a publication with a valid (key, peer ID) pair is built so that it
		// verifies: the node's own validation applies the receiver's rule to it, a refusal means the
		// message it built fails that rule.
		if (eff == "strict" || eff == "laxsign") && len(s.parkedGates()) == 0 && c.isDone(s) && c.res != nil {
			s.violate("C03", "own-verifies", "C03/own-publication-refused/"+au.kind, "policy %s, author mode %s: the node could not publish with a valid per-publish %s key: %v", policy, amode, au.kind, c.res)
		} else if c.isDone(s) && c.res == nil {
			s.probe("c03_per_publish_key_ok_" + au.kind)
		}
	}
	w.localHook = func(topic string, data []byte, c *call) { own[string(data)] = true }

	checked := 0
	judge := func(m *pb.Message, where string) {
		checked++
		isOwn := own[string(m.GetData())]
		ok, why := c03MayAccept(m, cfg, !isOwn)
		kind := sentKinds[string(c03Encode(m, true))]
		if isOwn {
			kind = "own-publication"
			s.probe("c03_own_publication_checked")
		} else if kind == "" {
			kind = "altered-by-the-node"
		}
		if ok {
			s.probe("c03_" + where + "_acceptable")
			return
		}
		if isOwn {
			s.violate("C03", "own-verifies", "C03/own-publication-fails-rule/"+amode, "policy %s, author mode %s: the node %s a message of its own that a receiver with the same configuration must refuse: %s", policy, amode, where, why)
			return
		}
		s.violate("C03", "authentic-only", "C03/"+where+"-unauthentic/"+kind, "policy %s, author mode %s: the node %s a message (%s) although it %s", policy, amode, where, kind, why)
	}
	subCursor := map[int]int{}
	w.afterItem = append(w.afterItem, func(it Item) {
		w.n.mu.Lock()
		subs := append([]*simSub(nil), w.n.subs...)
		w.n.mu.Unlock()
		for _, ss := range subs {
			ms := ss.messages()
			for ; subCursor[ss.id] < len(ms); subCursor[ss.id]++ {
				judge(ms[subCursor[ss.id]].Message, "delivered")
			}
		}
		for _, fp := range w.allFakes() {
			for ; fp.c03cursor < len(fp.recv); fp.c03cursor++ {
				for _, m := range fp.recv[fp.c03cursor].rpc.GetPublish() {
					judge(m, "forwarded")
				}
			}
		}
	})
	w.atEnd = append(w.atEnd, func() {
		s.nontrivial = checked > 0
		var ks []string
		for _, k := range sentKinds {
			ks = append(ks, k)
		}
		sort.Strings(ks)
		s.class = fmt.Sprintf("%s/%s/%s/%x", w.n.router, policy, amode, shortHash([]byte(fmt.Sprint(ks))))
	})
	_ = bytes.Equal
	w.run()
}
