package pubsub

// W-NET: several real pubsub instances (any mix of gossipsub, floodsub and randomsub) on simulated
// hosts joined by the simulated transport. The plan scripts topology changes, interest changes,
// transport faults (single-stream resets, stalled links, whole-peer disconnects), publications and
// topic event handlers; the world keeps a reference model of what the application asked for
// (connections, subscriptions, relay references) and never reads it back from the nodes.

import (
	"context"
	"fmt"
	"sort"
	"strings"
	"sync"
	"time"

	pb "github.com/libp2p/go-libp2p-pubsub/pb"
	"github.com/libp2p/go-libp2p/core/network"
	"github.com/libp2p/go-libp2p/core/peer"
)

type netPub struct {
	localOnly bool
	seq       int
	node      int
	topic     string
	data      string
	at        time.Duration
	call      *call
	settled   bool // the network had been left alone for long enough when it was published
	disturbed bool // some churn or fault happened between publication and the check
	eligible  bool // structural preconditions of the completeness claim held at publication
	why       string
	expect    map[int][]int // node -> ids of the subscriptions that must receive it
	checked   bool
}

type netEvh struct {
	id      int
	node    int
	topic   string
	h       *TopicEventHandler
	mu      sync.Mutex
	events  []PeerEvent
	pending []*netNext
	stopped bool
	created time.Duration
}

type netNext struct {
	id     int
	cancel context.CancelFunc
	c      *call
}

type netWorld struct {
	lastTouch map[[2]int]time.Duration
	killAcc   map[[2]int]*killAccount
	lastDisc  map[[2]int]time.Duration
	appScore  map[string]float64 // "node|peer" -> application score (net_score runs)
	s         *sim
	plan      *Plan
	nodes     []*simNode
	router    []string
	topics    []string
	gp        GossipSubParams

	conn       map[[2]int]bool
	fanoutOnly map[string]bool // "node|topic"
	pubs       []*netPub
	evhs       []*netEvh
	payloads   map[string]*netPub // data -> publication
	lastChurn  time.Duration
	nextSeq    int
	kills      map[[2]int]int // per pair: stream deaths caused so far (resets and disconnects)

	extraOps    map[string]func(it Item)
	afterItem   []func(it Item)
	armLoopPark bool
	vmu         sync.Mutex
}

func pairKey(a, b int) [2]int {
	if a > b {
		a, b = b, a
	}
	return [2]int{a, b}
}

func (w *netWorld) node(i int64) *simNode {
	if len(w.nodes) == 0 {
		return nil
	}
	k := int(i) % len(w.nodes)
	if k < 0 {
		k += len(w.nodes)
	}
	return w.nodes[k]
}
func (w *netWorld) idx(i int64) int {
	k := int(i) % len(w.nodes)
	if k < 0 {
		k += len(w.nodes)
	}
	return k
}
func (w *netWorld) topicName(i int64) string {
	k := int(i) % len(w.topics)
	if k < 0 {
		k += len(w.topics)
	}
	return w.topics[k]
}

func newNetWorld(s *sim) *netWorld {
	p := s.plan
	w := &netWorld{s: s, plan: p, conn: map[[2]int]bool{}, fanoutOnly: map[string]bool{}, payloads: map[string]*netPub{}, extraOps: map[string]func(Item){}, kills: map[[2]int]int{}}
	for i := 0; i < p.ki("ntopics", 1); i++ {
		w.topics = append(w.topics, fmt.Sprintf("t%d", i))
	}
	for _, f := range strings.Split(p.ks("fanout_only", ""), ",") {
		if f != "" {
			w.fanoutOnly[f] = true
		}
	}
	w.gp = gsParamsFromPlan(p)
	return w
}

// start creates the nodes described by the plan.
func (w *netWorld) start() bool {
	p := w.plan
	nExit := 0
	verifYieldFn = func(point int) {
		if point == verifInboundExit {
			// a slow goroutine: the handler of a dead inbound stream reports the closure late
			d := p.ki("inbound_exit_delay_us", 0)
			if d <= 0 {
				return
			}
			w.s.mu.Lock()
			nExit++
			w.s.faults["inbound_handler_exit_delayed"]++
			w.s.mu.Unlock()
			w.s.park("net-inbound-exit", nil, func(g *gate) {
				// (the delay depends on the step, not on the gate: handlers that stop in the same step
				// are interchangeable)
				dd := time.Duration(1+w.s.hn(fmt.Sprintf("inexit|%d", w.s.steps), d)) * time.Microsecond
				w.s.after(dd, "inbound-handler-exits "+g.id, func() { w.s.release(g, 0) })
			}, nil)
			return
		}
		if point != verifLoopRequest {
			return
		}
		w.s.mu.Lock()
		a := w.armLoopPark
		w.armLoopPark = false
		w.s.mu.Unlock()
		if a {
			w.s.park("net-loop-request", nil, nil, nil)
		}
	}
	routers := p.ks("routers", "gg")
	RandomSubD = p.ki("rsub_d", 6)
	kr := newPrng(p.Seed, "netkeys")
	for i, c := range routers {
		router := map[rune]string{'g': "gossipsub", 'f': "floodsub", 'r': "randomsub"}[c]
		if router == "" {
			router = "gossipsub"
		}
		var opts []Option
		opts = append(opts, WithPeerOutboundQueueSize(p.ki("queue_size", 32)))
		if v := p.ki("max_msg_size", 0); v > 0 {
			opts = append(opts, WithMaxMessageSize(v))
		}
		switch p.ks("sign", "strict") {
		case "strictnosign":
			opts = append(opts, WithMessageSignaturePolicy(StrictNoSign), WithMessageIdFn(func(m *pb.Message) string { return "c:" + m.GetTopic() + "|" + string(m.GetData()) }))
		case "laxsign":
			opts = append(opts, WithMessageSignaturePolicy(LaxSign))
		case "laxnosign":
			opts = append(opts, WithMessageSignaturePolicy(LaxNoSign))
		}
		i := i
		if router == "gossipsub" {
			opts = append(opts, WithGossipSubParams(w.gp), WithFloodPublish(p.kb("flood_publish")))
			if p.kb("net_score") {
				// peer scoring driven by an application score the plan sets per (node, peer): a peer
				// below the graylist threshold has its payload and control traffic ignored
				sp := &PeerScoreParams{
					AppSpecificScore:  func(pid peer.ID) float64 { return w.getAppScore(i, pid) },
					AppSpecificWeight: 1, DecayInterval: time.Second, DecayToZero: 0.01, RetainScore: 10 * time.Second,
					Topics: map[string]*TopicScoreParams{},
				}
				th := &PeerScoreThresholds{GossipThreshold: -10, PublishThreshold: -20, GraylistThreshold: -30, AcceptPXThreshold: 10, OpportunisticGraftThreshold: 1}
				opts = append(opts, WithPeerScore(sp, th))
			}
		}
		if lim := p.ki("sub_limit", 0); lim > 0 {
			// at most lim subscription entries per RPC (never fewer than there are topics: a hello
			// packet of a correct peer always fits)
			opts = append(opts, WithSubscriptionFilter(WrapLimitSubscriptionFilter(NewAllowlistSubscriptionFilter(w.topics...), lim)))
		}
		switch p.ki("val_mode", 0) {
		case 1:
			opts = append(opts, WithDefaultValidator(ValidatorEx(func(ctx context.Context, from peer.ID, m *Message) ValidationResult {
				return w.verdict(m)
			}), WithValidatorInline(true)))
		case 2:
			opts = append(opts, WithDefaultValidator(ValidatorEx(func(ctx context.Context, from peer.ID, m *Message) ValidationResult {
				key := fmt.Sprintf("nval|%d|%x", i, shortHash(m.GetData()))
				w.s.park(key, nil, func(g *gate) {
					d := time.Duration(w.s.hn("nvald|"+g.id, p.ki("val_delay_us", 20000))) * time.Microsecond
					w.s.after(d, "validator-done "+g.id, func() { w.s.release(g, 0) })
				}, ctx.Done())
				return w.verdict(m)
			})))
		}
		n, err := w.s.newNode(fmt.Sprintf("N%d", i), genKey(kr, int(p.k("key_types", 0))>>uint(i)&1), nodeCfg{router: router, opts: opts, rsize: p.ki("rsub_size", 4)})
		if err != nil {
			w.s.violate("SIM", "setup", "SIM/setup", "node %d: %v", i, err)
			return false
		}
		w.nodes = append(w.nodes, n)
		w.router = append(w.router, router)
		w.s.settle()
	}
	return true
}

func (w *netWorld) getAppScore(i int, pid peer.ID) float64 {
	w.s.mu.Lock()
	defer w.s.mu.Unlock()
	return w.appScore[fmt.Sprintf("%d|%s", i, pid)]
}

// verdict of the (network-wide, content-based) application validator
func (w *netWorld) verdict(m *Message) ValidationResult {
	if strings.HasPrefix(string(m.GetData()), "bad") {
		return ValidationReject
	}
	return ValidationAccept
}

// ---------------------------------------------------------------------------------------------
// reference model

func (w *netWorld) connected(a, b int) bool { return a != b && w.conn[pairKey(a, b)] }

func (w *netWorld) liveSubs(i int, topic string) []*simSub {
	n := w.nodes[i]
	n.mu.Lock()
	defer n.mu.Unlock()
	var out []*simSub
	for _, ss := range n.subs {
		if ss.topic == topic && !ss.canc {
			out = append(out, ss)
		}
	}
	return out
}

func (w *netWorld) relayRefs(i int, topic string) int {
	n := w.nodes[i]
	n.mu.Lock()
	defer n.mu.Unlock()
	return len(n.relays[topic])
}

// interested: the application of node i currently asks for topic (announced interest).
func (w *netWorld) interested(i int, topic string) bool {
	if w.relayRefs(i, topic) > 0 {
		return true
	}
	if w.fanoutOnly[fmt.Sprintf("%d|%s", i, topic)] {
		return false
	}
	return len(w.liveSubs(i, topic)) > 0
}

func (w *netWorld) neighbours(i int) []int {
	var out []int
	for j := range w.nodes {
		if w.connected(i, j) {
			out = append(out, j)
		}
	}
	return out
}

// mayKill: the library gives up on a peer whose outbound stream had to be re-opened
// MaxBackoffAttempts (4) times while it stayed (or was again) connected, unless the last of them is
// more than TimeToLive (10 min) ago; that is a documented design limit, not what C01/C05 are about.
// The world keeps its own account of that rule per direction (a's stream to b) and stays inside
// it: a death it causes costs one attempt when it is clean (both ends at once, nothing else
// happened on that pair for a second) and is charged two otherwise, because a death that hits a
// stream which is still being set up or replaced can be noticed twice; an account older than
// TimeToLive (plus a second for the time a death takes to be noticed) is empty again.
type killAccount struct {
	attempts int
	last     time.Duration
}

func (w *netWorld) mayKill(a, b int, clean bool) bool {
	if w.killAcc == nil {
		w.killAcc = map[[2]int]*killAccount{}
	}
	k := [2]int{a, b}
	acc := w.killAcc[k]
	if acc == nil {
		acc = &killAccount{}
		w.killAcc[k] = acc
	}
	if acc.attempts > 0 && w.s.now()-acc.last > TimeToLive+time.Second {
		w.s.probe("stream_death_history_expired")
		acc.attempts = 0
	}
	cost := 2
	if clean {
		cost = 1
	}
	if acc.attempts+cost > MaxBackoffAttempts {
		w.s.probe("skipped_at_give_up_limit")
		return false
	}
	acc.attempts += cost
	acc.last = w.s.now()
	if acc.attempts == MaxBackoffAttempts {
		w.s.probe("fourth_stream_death_in_a_row")
	}
	return true
}

func (w *netWorld) touch(a, b int) {
	if w.lastTouch == nil {
		w.lastTouch = map[[2]int]time.Duration{}
	}
	w.lastTouch[pairKey(a, b)] = w.s.now()
}

func (w *netWorld) untouchedFor(a, b int, d time.Duration) bool {
	t, ok := w.lastTouch[pairKey(a, b)]
	return ok && w.s.now()-t > d
}

func (w *netWorld) churn() {
	w.lastChurn = w.s.now()
	for _, pb := range w.pubs {
		if !pb.checked {
			pb.disturbed = true
		}
	}
}

// settleNeed: how long the network has to be left alone before the completeness claim applies:
// prune back-offs expire and are swept, then a few heartbeats rebuild the meshes.
func (w *netWorld) settleNeed() time.Duration {
	bo := w.gp.PruneBackoff
	if w.gp.UnsubscribeBackoff > bo {
		bo = w.gp.UnsubscribeBackoff
	}
	return bo + 24*w.gp.HeartbeatInterval + 2*time.Second
}

// ---------------------------------------------------------------------------------------------
// plan interpreter

func (w *netWorld) exec(it Item) {
	s := w.s
	switch it.Op {
	case "adv":
		s.advance(time.Duration(it.a(0)) * time.Millisecond)
	case "advus":
		s.advance(time.Duration(it.a(0)) * time.Microsecond)
	case "settle":
		s.advance(w.settleNeed() + time.Duration(it.a(0))*time.Millisecond)
	case "conn":
		a, b := w.idx(it.a(0)), w.idx(it.a(1))
		if a == b || w.connected(a, b) {
			return
		}
		if t, ok := w.lastDisc[pairKey(a, b)]; ok && s.now()-t < 100*time.Millisecond {
			// the deaths of the old streams may be handled when the peer is connected again: that
			// counts as a transient stream loss (one of the MaxBackoffAttempts)
			if !w.mayKill(a, b, false) {
				return
			}
			if !w.mayKill(b, a, false) {
				w.killAcc[[2]int{a, b}].attempts -= 2
				return
			}
		}
		w.conn[pairKey(a, b)] = true
		w.touch(a, b)
		w.churn()
		ha, hb := w.nodes[a].h, w.nodes[b].h
		c := s.connect(ha, hb, false)
		w.tunePipes(c)
		s.settle()
		da := time.Duration(100+s.hn(fmt.Sprintf("identd|%s|%d", c.id, 0), 3000)) * time.Microsecond
		db := time.Duration(100+s.hn(fmt.Sprintf("identd|%s|%d", c.id, 1), 3000)) * time.Microsecond
		s.after(da, "identify "+ha.name+"<-"+hb.name, func() {
			if w.connected(a, b) {
				s.identify(ha, hb)
			}
		})
		s.after(db, "identify "+hb.name+"<-"+ha.name, func() {
			if w.connected(a, b) {
				s.identify(hb, ha)
			}
		})
	case "score":
		// node a's application score for b
		a, b := w.idx(it.a(0)), w.idx(it.a(1))
		if a == b || !w.plan.kb("net_score") {
			return
		}
		s.mu.Lock()
		if w.appScore == nil {
			w.appScore = map[string]float64{}
		}
		w.appScore[fmt.Sprintf("%d|%s", a, w.nodes[b].h.id)] = float64(it.a(2))
		s.mu.Unlock()
		if it.a(2) < -30 {
			s.probe("peer_graylisted")
		}
	case "disc":
		// (a whole-peer disconnect does not touch the dead-peer back-off: it is consulted only when
		// the peer is still connected at the time its outbound stream is found dead; the event loop
		// handles the death at this very instant, before any reconnect)
		a, b := w.idx(it.a(0)), w.idx(it.a(1))
		if !w.connected(a, b) {
			return
		}
		if w.lastDisc == nil {
			w.lastDisc = map[[2]int]time.Duration{}
		}
		w.lastDisc[pairKey(a, b)] = s.now()
		w.touch(a, b)
		delete(w.conn, pairKey(a, b))
		w.churn()
		s.fault("disconnect")
		s.disconnect(w.nodes[a].h, w.nodes[b].h)
		s.settle()
	case "reset":
		// the transport resets a's outbound pubsub stream to b; the connection survives
		a, b := w.idx(it.a(0)), w.idx(it.a(1))
		if !w.connected(a, b) {
			return
		}
		st := w.outStream(a, b)
		if st == nil || !w.mayKill(a, b, it.a(2) == 0 && w.untouchedFor(a, b, time.Second)) {
			return
		}
		w.touch(a, b)
		w.churn()
		s.fault("stream_reset")
		ends := []*simStream{st, st.peer}
		if s.hv("resetorder|"+st.name)&1 == 1 {
			ends[0], ends[1] = ends[1], ends[0]
		}
		if it.a(2) == 1 {
			// only the opener's end dies now; the reader learns when the opener's own Reset arrives,
			// one link latency later - possibly after the replacement stream
			ends = []*simStream{st}
			s.probe("reset_writer_end_first")
		}
		for _, e := range ends {
			e := e
			if e == nil {
				continue
			}
			s.asap("stream-dies "+e.name, func() {
				e.killEnd(network.ErrReset)
				e.conn.removeStream(e)
			})
		}
		s.settle()
	case "stall":
		a, b := w.idx(it.a(0)), w.idx(it.a(1))
		st := w.outStream(a, b)
		if st == nil {
			return
		}
		w.churn()
		s.fault("link_stall")
		st.wr.setStalled(true)
		d := time.Duration(it.a(2)) * time.Millisecond
		s.after(d, "unstall "+st.name, func() { st.wr.setStalled(false); w.lastChurn = s.now() })
		w.lastChurn = s.now() + d
	case "slow":
		// [a, b, per-frame ms, duration ms] a's outbound stream to b takes one frame per interval
		a, b := w.idx(it.a(0)), w.idx(it.a(1))
		st := w.outStream(a, b)
		if st == nil {
			return
		}
		w.churn()
		s.fault("link_slow")
		per := time.Duration(it.a(2)) * time.Millisecond
		st.wr.mu.Lock()
		st.wr.slow = per
		st.wr.mu.Unlock()
		d := time.Duration(it.a(3)) * time.Millisecond
		s.after(d, "link-fast-again "+st.name, func() {
			st.wr.mu.Lock()
			st.wr.slow = 0
			st.wr.mu.Unlock()
			st.wr.setStalled(false)
			w.lastChurn = s.now()
		})
		w.lastChurn = s.now() + d
	case "sub":
		i, t := w.idx(it.a(0)), w.topicName(it.a(1))
		n := w.nodes[i]
		lazy := it.a(2) != 0
		buf := int(it.a(3))
		w.churn()
		s.do(fmt.Sprintf("Subscribe N%d %s", i, t), func() any {
			n.topicOpts = w.topicOpts(i)
			ss, err := n.subscribeMode(t, buf, lazy)
			if err != nil {
				return err
			}
			return ss.id
		})
	case "cancel":
		i := w.idx(it.a(0))
		n := w.nodes[i]
		var live []*simSub
		n.mu.Lock()
		for _, ss := range n.subs {
			if !ss.canc {
				live = append(live, ss)
			}
		}
		n.mu.Unlock()
		if len(live) == 0 {
			return
		}
		ss := live[int(it.a(1))%len(live)]
		w.churn()
		n.mu.Lock()
		ss.canc = true
		ss.cancAt = s.now()
		ss.rawTo = len(n.trace)
		n.mu.Unlock()
		s.do(fmt.Sprintf("Cancel N%d sub%d", i, ss.id), func() any { ss.sub.Cancel(); return nil })
		if ss.lazy {
			ss.startConsumer()
			s.settle()
		}
	case "recancel":
		// Cancel called again on a subscription that is already cancelled: no effect
		i := w.idx(it.a(0))
		n := w.nodes[i]
		var dead []*simSub
		n.mu.Lock()
		for _, ss := range n.subs {
			if ss.canc {
				dead = append(dead, ss)
			}
		}
		n.mu.Unlock()
		if len(dead) == 0 {
			return
		}
		ss := dead[int(it.a(1))%len(dead)]
		s.probe("cancel_called_twice")
		s.do(fmt.Sprintf("Cancel(again) N%d sub%d", i, ss.id), func() any { ss.sub.Cancel(); return nil })
	case "relay":
		i, t := w.idx(it.a(0)), w.topicName(it.a(1))
		n := w.nodes[i]
		w.churn()
		s.do(fmt.Sprintf("Relay N%d %s", i, t), func() any {
			n.topicOpts = w.topicOpts(i)
			tp, err := n.topic(t)
			if err != nil {
				return err
			}
			cf, err := tp.Relay()
			if err != nil {
				return err
			}
			n.mu.Lock()
			n.relays[t] = append(n.relays[t], cf)
			n.mu.Unlock()
			return nil
		})
	case "unrelay":
		i, t := w.idx(it.a(0)), w.topicName(it.a(1))
		n := w.nodes[i]
		n.mu.Lock()
		l := n.relays[t]
		var cf RelayCancelFunc
		if len(l) > 0 {
			cf = l[len(l)-1]
			n.relays[t] = l[:len(l)-1]
		}
		n.mu.Unlock()
		if cf == nil {
			return
		}
		w.churn()
		if it.a(2) == 2 {
			// the same cancel function called by two tasks at once while the event loop is busy with
			// another request: both calls are in flight before either is handled
			s.probe("relay_cancel_twice_concurrently")
			w.armLoopPark = true
			s.spawn(fmt.Sprintf("GetTopics N%d (keeps the loop busy)", i), func() any { return len(n.ps.GetTopics()) })
			s.settle()
			w.armLoopPark = false
			s.spawn(fmt.Sprintf("RelayCancel N%d %s (task 1)", i, t), func() any { cf(); return nil })
			s.spawn(fmt.Sprintf("RelayCancel N%d %s (task 2)", i, t), func() any { cf(); return nil })
			s.settle()
			for _, g := range s.parkedGates() {
				if strings.HasPrefix(g.id, "net-loop-request") {
					s.release(g, 0)
				}
			}
			s.settle()
			return
		}
		s.do(fmt.Sprintf("RelayCancel N%d %s", i, t), func() any { cf(); return nil })
		if it.a(2) == 1 {
			// cancelling a relay reference twice must not release another holder's reference
			s.do(fmt.Sprintf("RelayCancel(again) N%d %s", i, t), func() any { cf(); return nil })
		}
	case "tclose":
		i, t := w.idx(it.a(0)), w.topicName(it.a(1))
		n := w.nodes[i]
		n.mu.Lock()
		tp := n.topics[t]
		n.mu.Unlock()
		if tp == nil {
			return
		}
		// A Publish parked in a validator holds the topic handle's read lock; a goroutine blocked on
		// the write lock is not durably blocked for synctest, so virtual time could not advance.
		for _, pb := range w.pubs {
			if pb.node == i && pb.topic == t && pb.call != nil && !pb.call.isDone(s) {
				s.probe("tclose_skipped_publish_pending")
				return
			}
		}
		c := s.do(fmt.Sprintf("Topic.Close N%d %s", i, t), func() any { return tp.Close() })
		if c.isDone(s) && c.res == nil {
			n.mu.Lock()
			delete(n.topics, t)
			n.mu.Unlock()
			if it.a(2) == 1 {
				// the application will join the topic again the other way round: FanoutOnly() if it
				// was an ordinary topic, ordinary if it was fanout-only
				k := fmt.Sprintf("%d|%s", i, t)
				if w.fanoutOnly == nil {
					w.fanoutOnly = map[string]bool{}
				}
				w.fanoutOnly[k] = !w.fanoutOnly[k]
				s.probe("topic_rejoined_with_other_fanout_only_setting")
			}
		}
	case "pub":
		w.publishMode(w.idx(it.a(0)), w.topicName(it.a(1)), int(it.a(2)), it.a(3) != 0, int(it.a(4)))
	case "evh":
		w.evhNew(w.idx(it.a(0)), w.topicName(it.a(1)))
	case "connburst":
		// [i, a, b] a and b connect to i and are identified while i's event loop is busy; a leaves
		// again before the loop gets to them: one batch of pending peers, one of them already gone
		i, a, b := w.idx(it.a(0)), w.idx(it.a(1)), w.idx(it.a(2))
		if i == a || i == b || a == b || w.connected(i, a) || w.connected(i, b) {
			return
		}
		n := w.nodes[i]
		s.probe("pending_peer_batch_with_departed_peer")
		w.armLoopPark = true
		s.spawn(fmt.Sprintf("GetTopics N%d (keeps the loop busy)", i), func() any { return len(n.ps.GetTopics()) })
		s.settle()
		w.armLoopPark = false
		w.exec(Item{Op: "conn", A: []int64{int64(i), int64(a)}})
		w.exec(Item{Op: "conn", A: []int64{int64(b), int64(i)}})
		s.advance(5 * time.Millisecond)
		w.exec(Item{Op: "disc", A: []int64{int64(i), int64(a)}})
		for _, g := range s.parkedGates() {
			if strings.HasPrefix(g.id, "net-loop-request") {
				s.release(g, 0)
			}
		}
		s.settle()
	case "evhrace":
		// [i, topic, j] a handler is created on node i while its event loop is busy with another
		// request; meanwhile neighbour j subscribes and its announcement reaches i's inbox. When
		// the loop resumes it finds both waiting (the seeded select decides which comes first).
		i, t, j := w.idx(it.a(0)), w.topicName(it.a(1)), w.idx(it.a(2))
		if i == j || !w.connected(i, j) {
			w.evhNew(i, t)
			return
		}
		n := w.nodes[i]
		s.probe("c18_handler_created_while_loop_busy")
		// the topic handle exists before the loop gets busy (Join needs the loop)
		var tp *Topic
		s.do(fmt.Sprintf("Join N%d %s", i, t), func() any {
			n.topicOpts = w.topicOpts(i)
			x, err := n.topic(t)
			if err != nil {
				return err
			}
			tp = x
			return nil
		})
		if tp == nil {
			return
		}
		w.armLoopPark = true
		s.spawn(fmt.Sprintf("GetTopics N%d (keeps the loop busy)", i), func() any { return len(n.ps.GetTopics()) })
		s.settle()
		w.armLoopPark = false
		e := &netEvh{id: len(w.evhs), node: i, topic: t, created: s.now()}
		c := s.spawn(fmt.Sprintf("EventHandler N%d %s", i, t), func() any {
			h, err := tp.EventHandler()
			if err != nil {
				return err
			}
			e.h = h
			return nil
		})
		s.settle()
		w.exec(Item{Op: "sub", A: []int64{int64(j), it.a(1), 0, 0}})
		s.advance(50 * time.Millisecond)
		for _, g := range s.parkedGates() {
			if strings.HasPrefix(g.id, "net-loop-request") {
				s.release(g, 0)
			}
		}
		s.settle()
		if c.isDone(s) && e.h != nil {
			w.evhs = append(w.evhs, e)
		}
	case "evnext":
		w.evhNext(int(it.a(0)))
	case "evnextcancel":
		w.evhNextCancel(int(it.a(0)))
	case "evpolldead":
		// NextPeerEvent with a context that is already cancelled: a pending event may be returned or
		// the context error, but no event may get lost
		if nx := w.evhNextCtx(int(it.a(0)), true); nx != nil {
			s.probe("c18_poll_with_cancelled_context")
		}
	case "evstop":
		w.evhStop(int(it.a(0)))
	default:
		if f := w.extraOps[it.Op]; f != nil {
			f(it)
			return
		}
		s.logf("unknown op %s", it.Op)
	}
}

func (w *netWorld) topicOpts(i int) func(name string) []TopicOpt {
	return func(name string) []TopicOpt {
		if w.fanoutOnly[fmt.Sprintf("%d|%s", i, name)] {
			return []TopicOpt{FanoutOnly()}
		}
		return nil
	}
}

func (w *netWorld) tunePipes(c *simConn) {}

// outStream: a's live outbound pubsub stream to b.
func (w *netWorld) outStream(a, b int) *simStream {
	c := w.nodes[a].h.connTo(w.nodes[b].h.id)
	if c == nil {
		return nil
	}
	var best *simStream
	for _, st := range c.snapshotStreams() {
		if st.out && !st.localDead() {
			if best == nil || st.id > best.id {
				best = st
			}
		}
	}
	return best
}

func (w *netWorld) publish(i int, topic string, size int, bad bool) {
	w.publishMode(i, topic, size, bad, 0)
}

// publishMode: 0 Topic.Publish; 1 AddToBatch + PublishBatch (gossipsub publishers, otherwise as 0);
// 2 the same with WithLocalPublication(true); 3 Topic.Publish with WithLocalPublication(true).
// A local-only publication is owed to the publisher's own subscriptions and to nobody else.
func (w *netWorld) publishMode(i int, topic string, size int, bad bool, mode int) {
	s := w.s
	n := w.nodes[i]
	w.nextSeq++
	seq := w.nextSeq
	prefix := "ok"
	if bad {
		prefix = "bad"
	}
	data := fmt.Sprintf("%s-%d-%d-", prefix, seq, i)
	for len(data) < size {
		data += "x"
	}
	if lim := w.plan.ki("max_msg_size", 0); lim > 0 {
		// (runs with a size limit use the no-sign policy, so the size of the frame that carries the
		// message is a function of payload, topic and author alone.) A payload that does not fit is
		// cut down to the longest one that does: most of those fill a frame exactly.
		frame := func(d string) int {
			m := &pb.Message{From: []byte(n.h.id), Seqno: make([]byte, 8), Data: []byte(d), Topic: &topic}
			return (&pb.RPC{Publish: []*pb.Message{m}}).Size()
		}
		for len(data) > 0 && frame(data) > lim {
			data = data[:len(data)-1]
		}
		if frame(data) == lim {
			s.probe("c01_message_fills_a_frame_exactly")
		}
	}
	pb := &netPub{seq: seq, node: i, topic: topic, data: data, at: s.now()}
	pb.settled = s.now()-w.lastChurn >= w.settleNeed()
	w.pubs = append(w.pubs, pb)
	w.payloads[data] = pb
	w.classify(pb)
	if (mode == 1 || mode == 2) && w.router[i] != "gossipsub" {
		mode = map[int]int{1: 0, 2: 3}[mode]
	}
	local := mode == 2 || mode == 3
	if local {
		s.probe("c01_local_only_publication")
		own := pb.expect[i]
		pb.expect = map[int][]int{}
		if len(own) > 0 {
			pb.expect[i] = own
		}
		pb.eligible, pb.why, pb.localOnly = true, "", true
	}
	var opts []PubOpt
	if local {
		opts = append(opts, WithLocalPublication(true))
	}
	name := "Publish"
	if mode == 1 || mode == 2 {
		name = "AddToBatch+PublishBatch"
		s.probe("c01_batch_publication")
	}
	c := s.do(fmt.Sprintf("%s N%d %s #%d", name, i, topic, seq), func() any {
		n.topicOpts = w.topicOpts(i)
		tp, err := n.topic(topic)
		if err != nil {
			return err
		}
		if mode == 1 || mode == 2 {
			var b MessageBatch
			if err := tp.AddToBatch(context.Background(), &b, []byte(data), opts...); err != nil {
				return err
			}
			return n.ps.PublishBatch(&b)
		}
		return tp.Publish(context.Background(), []byte(data), opts...)
	})
	pb.call = c
}

// result of the Publish call ("" = returned nil)
func (pb *netPub) result(s *sim) string {
	if !pb.call.isDone(s) {
		return "Publish has not returned"
	}
	if pb.call.res != nil {
		return fmt.Sprint(pb.call.res)
	}
	return ""
}

// classify decides, from the reference model only, whether the completeness claim of C01 applies
// to this publication and which subscriptions must receive it.
func (w *netWorld) classify(pb *netPub) {
	t := pb.topic
	var members []int
	for j := range w.nodes {
		if w.interested(j, t) {
			members = append(members, j)
		}
	}
	in := map[int]bool{}
	for _, j := range members {
		in[j] = true
	}
	pb.expect = map[int][]int{}
	for _, j := range members {
		for _, ss := range w.liveSubs(j, t) {
			pb.expect[j] = append(pb.expect[j], ss.id)
		}
	}
	if !in[pb.node] {
		// the publisher's own subscriptions on a fanout-only topic still get their copy
		for _, ss := range w.liveSubs(pb.node, t) {
			pb.expect[pb.node] = append(pb.expect[pb.node], ss.id)
		}
	}
	pb.eligible, pb.why = true, ""
	fail := func(f string, a ...any) {
		if pb.eligible {
			pb.eligible, pb.why = false, fmt.Sprintf(f, a...)
		}
	}
	if !pb.settled {
		fail("not settled")
	}
	if len(members) == 0 {
		return
	}
	// overlay connectivity
	seen := map[int]bool{members[0]: true}
	q := []int{members[0]}
	for len(q) > 0 {
		x := q[0]
		q = q[1:]
		for _, y := range members {
			if !seen[y] && w.connected(x, y) {
				seen[y] = true
				q = append(q, y)
			}
		}
	}
	if len(seen) != len(members) {
		fail("overlay not connected")
	}
	if !in[pb.node] {
		ok := false
		for _, y := range members {
			if w.connected(pb.node, y) {
				ok = true
			}
		}
		if !ok {
			fail("publisher has no topic peer")
		}
	}
	// degree bounds within which the random peer selections are exhaustive
	// A mesh that REACHES Dhi is cut back to D at the next heartbeat (and a node at Dhi refuses
	// GRAFTs), with a back-off for the pruned peer: a node whose neighbours all need it can then
	// oscillate for ever and the meshes never settle. Below Dhi nobody is ever pruned for size, every
	// node keeps min(degree, Dlo) mesh links, and the at most Dlazy others are all gossiped to.
	gsBound := w.gp.Dlo + w.gp.Dlazy
	if w.gp.Dhi-1 < gsBound {
		gsBound = w.gp.Dhi - 1
	}
	check := append([]int(nil), members...)
	if !in[pb.node] {
		check = append(check, pb.node)
	}
	for _, x := range check {
		same := 0
		for _, y := range members {
			if y != x && w.connected(x, y) && w.router[y] == w.router[x] {
				same++
			}
		}
		switch w.router[x] {
		case "gossipsub":
			if same > gsBound {
				fail("gossipsub degree %d of N%d above bound %d", same, x, gsBound)
			}
		case "randomsub":
			if same > RandomSubD {
				fail("randomsub degree %d of N%d above bound %d", same, x, RandomSubD)
			}
		}
	}
}

// ---------------------------------------------------------------------------------------------
// topic event handlers

func (w *netWorld) evhNew(i int, topic string) {
	s := w.s
	n := w.nodes[i]
	e := &netEvh{id: len(w.evhs), node: i, topic: topic, created: s.now()}
	c := s.do(fmt.Sprintf("EventHandler N%d %s", i, topic), func() any {
		n.topicOpts = w.topicOpts(i)
		tp, err := n.topic(topic)
		if err != nil {
			return err
		}
		h, err := tp.EventHandler()
		if err != nil {
			return err
		}
		e.h = h
		return nil
	})
	if !c.isDone(s) || e.h == nil {
		return
	}
	w.evhs = append(w.evhs, e)
}

func (w *netWorld) evh(k int) *netEvh {
	if len(w.evhs) == 0 {
		return nil
	}
	if k < 0 {
		k = -k
	}
	return w.evhs[k%len(w.evhs)]
}

// evhNext starts one NextPeerEvent call on the handler (it may block; several may be pending).
func (w *netWorld) evhNext(k int) *netNext { return w.evhNextCtx(k, false) }

func (w *netWorld) evhNextCtx(k int, dead bool) *netNext {
	e := w.evh(k)
	if e == nil {
		return nil
	}
	s := w.s
	ctx, cancel := context.WithCancel(context.Background())
	if dead {
		cancel()
	}
	nx := &netNext{cancel: cancel}
	e.mu.Lock()
	nx.id = len(e.events)*1000 + len(e.pending)
	e.pending = append(e.pending, nx)
	e.mu.Unlock()
	nx.c = s.spawn(fmt.Sprintf("NextPeerEvent h%d", e.id), func() any {
		ev, err := e.h.NextPeerEvent(ctx)
		e.mu.Lock()
		defer e.mu.Unlock()
		for i, x := range e.pending {
			if x == nx {
				e.pending = append(e.pending[:i:i], e.pending[i+1:]...)
				break
			}
		}
		if err != nil {
			return "err:" + err.Error()
		}
		e.events = append(e.events, ev)
		return fmt.Sprintf("%d:%s", ev.Type, shortPeer(ev.Peer))
	})
	s.settle()
	return nx
}

func (w *netWorld) evhNextCancel(k int) {
	e := w.evh(k)
	if e == nil {
		return
	}
	e.mu.Lock()
	var nx *netNext
	if len(e.pending) > 0 {
		nx = e.pending[0]
	}
	e.mu.Unlock()
	if nx == nil {
		return
	}
	w.s.logf("cancel pending NextPeerEvent h%d", e.id)
	nx.cancel()
	w.s.settle()
}

func (w *netWorld) evhStop(k int) {
	e := w.evh(k)
	if e == nil || e.stopped {
		return
	}
	e.stopped = true
	w.s.do(fmt.Sprintf("EventHandler.Cancel h%d", e.id), func() any { e.h.Cancel(); return nil })
}

// evhDrain consumes everything the handler has to report right now (the network is quiet).
func (w *netWorld) evhDrain(e *netEvh) {
	s := w.s
	for k := 0; k < 10000; k++ {
		e.mu.Lock()
		np := len(e.pending)
		e.mu.Unlock()
		if np > 0 {
			// a call is already waiting: nothing more to consume
			return
		}
		nx := w.evhNext(e.id)
		if nx == nil {
			return
		}
		if !nx.c.isDone(s) {
			nx.cancel()
			s.settle()
			return
		}
	}
}

func (w *netWorld) cancelAllNext() {
	for _, e := range w.evhs {
		e.mu.Lock()
		p := append([]*netNext(nil), e.pending...)
		e.mu.Unlock()
		for _, nx := range p {
			nx.cancel()
		}
	}
	w.s.settle()
}

// ---------------------------------------------------------------------------------------------

func (w *netWorld) listPeers(i int, topic string) []string {
	n := w.nodes[i]
	var out []string
	c := w.s.do(fmt.Sprintf("ListPeers N%d %s", i, topic), func() any {
		for _, p := range n.ps.ListPeers(topic) {
			out = append(out, string(p))
		}
		return len(out)
	})
	if !c.isDone(w.s) {
		return nil
	}
	sort.Strings(out)
	return out
}

func (w *netWorld) nameOf(p string) string {
	for i, n := range w.nodes {
		if string(n.h.id) == p {
			return fmt.Sprintf("N%d", i)
		}
	}
	return shortPeer(peer.ID(p))
}

func (w *netWorld) names(ps []string) string {
	var out []string
	for _, p := range ps {
		out = append(out, w.nameOf(p))
	}
	sort.Strings(out)
	return "{" + strings.Join(out, ",") + "}"
}

func (w *netWorld) run(items []Item) {
	for _, it := range items {
		if w.s.stopped {
			break
		}
		w.s.logf("ITEM %s %v %v", it.Op, it.A, it.S)
		w.exec(it)
		for _, f := range w.afterItem {
			f(it)
		}
	}
}
