package pubsub

// C16 — a blacklisted peer can neither inject messages nor receive traffic.
// W-NODE, each router, blacklist implementation in {map, time-cached, simulator-owned};
// blacklisting through BlacklistPeer or directly through the implementation at a drawn
// position of the target's lifecycle.

import (
	"fmt"
	"strings"
	"sync"
	"time"

	"github.com/libp2p/go-libp2p/core/peer"
)

func init() {
	registerProp("C16", genC16, map[string]func(*sim){"node": runC16})
}

type simBlacklist struct {
	mu sync.Mutex
	m  map[peer.ID]bool
}

func (b *simBlacklist) Add(p peer.ID) bool {
	b.mu.Lock()
	defer b.mu.Unlock()
	b.m[p] = true
	return true
}
func (b *simBlacklist) Contains(p peer.ID) bool {
	b.mu.Lock()
	defer b.mu.Unlock()
	return b.m[p]
}

func genC16(seed uint64, tier string) *Plan {
	r := newPrng(seed, "c16")
	p := &Plan{World: "node", Knobs: map[string]float64{}, SK: map[string]string{}}
	p.SK["router"] = []string{"gossipsub", "gossipsub", "floodsub", "randomsub"}[r.intn(4)]
	p.SK["blacklist"] = []string{"map", "timecached", "custom"}[r.intn(3)]
	p.Knobs["bl_expiry_ms"] = float64([]int{5000, 30000, 600000}[r.intn(3)])
	p.Knobs["ntopics"] = float64(r.rng(1, 2))
	p.Knobs["hb_ms"] = 1000
	p.Knobs["scoring"] = float64(r.intn(2))
	p.Knobs["flood_publish"] = float64(r.intn(2))
	p.SK["sign"] = []string{"strict", "strict", "strict", "laxnosign", "laxsign", "strictnosign"}[r.intn(6)]
	genDegrees(r, p, 4)
	if r.chance(0.7) {
		p.Knobs["nval_default"] = float64(r.rng(0, 1))
		p.Knobs["topic_val"] = 1
		p.Knobs["topic_val_all"] = 1
		p.Knobs["v0_inline"] = float64(r.intn(2))
		p.Knobs["v3_inline"] = float64(r.intn(2))
		p.Knobs["p_park"] = []float64{0.3, 0.7, 1}[r.intn(3)]
		p.Knobs["workers"] = float64(r.rng(1, 2))
	}
	// one run in eight: the application blacklists, directly through the implementation and from
	// inside a tracer callback (i.e. on the event loop, between two messages of one RPC), whoever
	// sends a message that violates the signing policy
	blr := r.chance(0.12)
	if blr {
		p.Knobs["bl_on_reject"] = 1
		p.SK["sign"] = "strictnosign"
		p.Knobs["nval_default"], p.Knobs["topic_val"], p.Knobs["topic_val_all"] = 0, 0, 0
	}
	nt := p.ki("ntopics", 1)
	add := func(op string, a ...int64) { p.Items = append(p.Items, Item{Op: op, A: a}) }
	// one run in five: the node only PUBLISHES to its last topic (no subscription), so that peers
	// of that topic sit in the router's fanout set and not in a mesh
	fanT := -1
	if r.chance(0.2) {
		fanT = nt - 1
		p.Knobs["fanout_topic"] = float64(fanT)
	}
	for t := 0; t < nt; t++ {
		if t != fanT {
			add("node-sub", int64(t))
		}
	}
	np := r.rng(2, 5)
	early := r.chance(0.15) // blacklist the target before it ever connects
	if early {
		add("bl", 1, int64(r.intn(2)))
	}
	for i := 0; i < np; i++ {
		v := int64(r.intn(5))
		add("peer", int64(i), v, int64(r.intn(2)), int64(i))
		if i == 1 && r.chance(0.25) {
			// blacklist between queue creation (identify) and completion of the stream open
			add("identify", 1)
			add("bl", 1, int64(r.intn(2)))
			add("adv", 5)
			add("open", 1)
			add("sub", 1, 0)
			continue
		}
		add("identify", int64(i))
		add("adv", 5)
		add("open", int64(i))
		for t := 0; t < nt; t++ {
			add("sub", int64(i), int64(t))
		}
		if r.chance(0.5) {
			add("graft", int64(i), 0)
		}
	}
	add("adv", int64(r.rng(200, 2500)))
	n := r.rng(8, 28)
	if tier == "thorough" {
		n = r.rng(8, 60)
	}
	done := early
	for k := 0; k < n; k++ {
		i := int64(r.intn(np))
		t := int64(r.intn(nt))
		x := r.intn(100)
		switch {
		case x < 20:
			if blr && r.chance(0.4) {
				// one RPC from the target: a message with a signature (refused under the no-sign policy),
				// then a well-formed message written by somebody else
				add("pub2", t, int64(r.rng(8, 80)), int64([]int{0, 2, 3}[r.intn(3)]%np))
			} else {
				add("pub", 1, t, int64(r.rng(8, 80))) // target publishes
			}
		case x < 26:
			add("fwd", int64(r.intn(np)), t, int64(r.rng(8, 80)), 1) // third party forwards a message authored by the target
		case x < 30:
			// the target forwards a message authored by somebody else (forwarder and author differ)
			add("fwd", 1, t, int64(r.rng(8, 80)), int64([]int{0, 2, 3}[r.intn(3)]%np))
		case x < 38:
			add("pub", i, t, int64(r.rng(8, 80)))
		case x < 44:
			add("resend", i, int64(r.intn(5)))
		case x < 52:
			add("node-pub", t, int64(r.rng(8, 60)))
		case x < 66:
			add("release", int64(r.intn(5)))
		case x < 74:
			add("adv", int64(r.rng(10, 1500)))
		case x < 80 && !done:
			switch z := r.intn(12); z {
			case 0:
				add("direct-add", 1) // a mesh or fanout member pinned as direct peer at run time
			case 1:
				add("unsub", 1, t) // in the mesh, no longer in the topic
			case 2:
				add("graft", 1, int64(nt-1)) // grafted without ever subscribing
			}
			if fanT >= 0 && r.chance(0.7) {
				add("node-pub", int64(fanT), int64(r.rng(8, 60)))
				add("adv", int64(r.rng(1, 3000)))
			}
			switch y := r.intn(10); {
			case y < 2:
				// a backlog behind a stalled link at the moment of the call
				add("stall", 1, 1)
				for j := r.rng(1, 5); j > 0; j-- {
					if r.chance(0.5) {
						add("node-pub", t, int64(r.rng(8, 60)))
					} else {
						add("pub", int64([]int{0, 2, 3}[r.intn(3)]%np), t, int64(r.rng(8, 80)))
					}
				}
				add("bl", 1, 1)
				add("stall", 1, 0)
				add("adv", int64(r.rng(1, 50)))
			case y < 6 && y >= 4:
				// messages of a clean peer and of the target leave validation while the event loop is
				// busy; the blacklist gains the target before the loop takes them
				for j := r.rng(2, 5); j > 0; j-- {
					if r.chance(0.5) {
						add("pub", 1, t, int64(r.rng(8, 80)))
					} else {
						add("pub", int64([]int{0, 2, 3}[r.intn(3)]%np), t, int64(r.rng(8, 80)))
					}
				}
				add("bl", 1, 0, 1)
			case y < 4:
				// first through the implementation, then through the API
				add("bl", 1, 0)
				add("adv", int64(r.rng(1, 2000)))
				add("bl", 1, 1)
			default:
				add("bl", 1, int64(r.intn(2)))
			}
			done = true
		case x < 84:
			add("disconnect", 1)
		case x < 90:
			add("reconnect", 1, int64(r.intn(2)))
			add("identify", 1)
			add("adv", 5)
			add("open", 1)
			add("sub", 1, t)
		case x < 93:
			add("graft", 1, t)
		case x < 94:
			// anybody asks for a message the node has seen (after the blacklisting: also for those the
			// target wrote or delivered before it)
			add("iwant", int64(r.intn(np)), int64(r.intn(8)))
		case x < 95:
			// the node's own application publishes under the target's identity
			add("node-pub-as", t, int64(r.rng(8, 60)))
		case x < 97:
			add("adv", int64(r.rng(5000, 40000)))
		default:
			add("release-all")
		}
	}
	if r.chance(0.3) {
		add("iwant", int64(r.intn(np)), int64(r.intn(8)))
		add("node-pub-as", 0, 20)
	}
	if !done {
		if fanT >= 0 {
			add("node-pub", int64(fanT), 20)
		}
		add("bl", 1, int64(r.intn(2)))
		add("pub", 1, 0, 20)
		add("fwd", 0, 0, 20, 1)
		add("node-pub", 0, 20)
	}
	add("release-all")
	add("adv", 1500)
	return p
}

func runC16(s *sim) {
	w := newNodeWorld(s)
	p := w.plan
	var bl Blacklist
	var tcbl *TimeCachedBlacklist
	switch p.ks("blacklist", "map") {
	case "timecached":
		b, _ := NewTimeCachedBlacklist(time.Duration(p.ki("bl_expiry_ms", 600000)) * time.Millisecond)
		bl = b
		tcbl = b.(*TimeCachedBlacklist)
	case "custom":
		bl = &simBlacklist{m: map[peer.ID]bool{}}
	default:
		bl = NewMapBlacklist()
	}
	if tcbl != nil {
		defer tcbl.tc.Done() // the library offers no way to stop its sweeper; end it with the run
	}
	if err := w.startNode(WithBlacklist(bl)); err != nil {
		s.violate("SIM", "setup", "SIM/setup", "node creation failed: %v", err)
		return
	}
	expiry := time.Duration(p.ki("bl_expiry_ms", 600000)) * time.Millisecond
	var T time.Duration = -1 // quiescence at which the blacklist first contains the target
	viaAPI := false
	var target *fakePeer
	var tid peer.ID
	{
		kr := newPrng(p.Seed, "fakekey1")
		tid, _ = peer.IDFromPrivateKey(genKey(kr, 0))
	}
	frameMark := map[int]int{}
	delivMark := map[int]int{}
	inFlightAllowance := 0
	sopMark := 0
	type sop struct {
		st *simStream
		op string
		t  time.Duration
	}
	var sops []sop
	w.n.h.onStreamOp = func(st *simStream, op string) { sops = append(sops, sop{st, op, s.now()}) }
	active := func() bool {
		if T < 0 {
			return false
		}
		if tcbl != nil && s.now() >= T+expiry {
			return false // entry expired (or in the expiry-to-sweep band): obligation over
		}
		return true
	}
	armed := false
	defer func() { verifYieldFn = nil }()
	verifYieldFn = func(point int) {
		if point != verifLoopRequest {
			return
		}
		s.mu.Lock()
		a := armed
		armed = false
		s.mu.Unlock()
		if a {
			s.park("loop-request", nil, nil, nil)
		}
	}
	reacted := false
	if p.kb("bl_on_reject") {
		w.n.onRaw = func(r *rawRec) {
			// (tracer callback: event loop goroutine)
			if r.kind != "reject" || r.from != tid || r.reason != RejectUnexpectedSignature {
				return
			}
			s.mu.Lock()
			first := !reacted
			reacted = true
			s.mu.Unlock()
			if first {
				bl.Add(tid)
			}
		}
	}
	w.extraOps["pub2"] = func(it Item) {
		fp, au := w.fake(1), w.fake(int(it.a(2)))
		if fp == nil || au == nil || au == fp || !fp.outAlive() || len(s.parkedGates()) > 0 {
			return
		}
		topic := w.topicName(it.a(0))
		bad := fp.signedMsg(topic, w.mkData(int(it.a(1))))
		good := w.newMsg(au, topic, w.mkData(int(it.a(1))+1))
		w.sent[midOf(good)] = good
		w.noteSentBy(fp, good)
		s.mu.Lock()
		was := reacted
		s.mu.Unlock()
		// marks before the RPC: the refused message comes first, so nothing that arrives with or
		// after it from the target may be delivered or forwarded once the callback has reacted
		dm := map[int]int{}
		for _, ss := range w.n.subs {
			dm[ss.id] = len(ss.messages())
		}
		fm := map[int]int{}
		for i, f := range w.fakes {
			fm[i] = len(f.recv)
		}
		fp.send(rpcPub(bad, good))
		s.settle()
		s.mu.Lock()
		now := reacted
		s.mu.Unlock()
		if !was && now && T < 0 {
			s.probe("bl_from_tracer_callback_inside_an_rpc")
			s.logf("BLACKLIST direct add from the tracer callback")
			T = s.now()
			target = fp
			delivMark, frameMark = dm, fm
		}
	}
	w.extraOps["node-pub-as"] = func(it Item) {
		kr := newPrng(p.Seed, "fakekey1")
		key := genKey(kr, 0)
		topic := w.topicName(it.a(0))
		data := w.mkData(int(it.a(1)))
		s.probe("own_publication_under_the_target_identity")
		s.do("Publish(WithSecretKeyAndPeerId target) "+topic, func() any {
			t, err := w.n.topic(topic)
			if err != nil {
				return err
			}
			return t.Publish(s.bgctx(), data, WithSecretKeyAndPeerId(key, tid))
		})
	}
	w.extraOps["bl"] = func(it Item) {
		if T >= 0 && (viaAPI || it.a(1) != 1 || !active()) {
			return
		}
		second := T >= 0 // BlacklistPeer on a peer that the implementation already contains
		target = w.fake(1)
		stalledAtT := target != nil && target.stalledNow()
		burst := it.a(2) == 1 && it.a(1) != 1 && !second
		fanoutBefore := map[peer.ID]bool{}
		if gs := w.n.gs(); gs != nil {
			for _, m := range gs.fanout {
				for q := range m {
					fanoutBefore[q] = true
				}
			}
		}
		if burst {
			// keep the event loop busy (parked between receiving a request and handling it) while
			// every message still in validation completes and queues up for the loop
			s.mu.Lock()
			armed = true
			s.mu.Unlock()
			s.spawn("GetTopics (keeps the loop busy)", func() any { return len(w.n.ps.GetTopics()) })
			s.settle()
			s.mu.Lock()
			armed = false
			s.mu.Unlock()
			n := 0
			for round := 0; round < 1024; round++ {
				var g []*gate
				for _, x := range s.parkedGates() {
					if !strings.HasPrefix(x.id, "loop-request") {
						g = append(g, x)
					}
				}
				if len(g) == 0 {
					break
				}
				for _, x := range g {
					s.release(x, 0)
					s.settle()
					n++
				}
			}
			if n >= 2 {
				s.probe("bl_with_validated_messages_waiting_for_loop")
			}
		}
		defer func() {
			if burst {
				for _, x := range s.parkedGates() {
					if strings.HasPrefix(x.id, "loop-request") {
						s.release(x, 0)
					}
				}
				s.settle()
			}
		}()
		if it.a(1) == 1 {
			viaAPI = true
			s.do("BlacklistPeer target", func() any { w.n.ps.BlacklistPeer(tid); return nil })
		} else {
			bl.Add(tid) // directly through the configured implementation (root goroutine, at quiescence)
			s.logf("BLACKLIST direct add")
		}
		s.settle()
		if second {
			s.probe("bl_api_after_direct_add")
		} else {
			T = s.now()
			for _, ss := range w.n.subs {
				delivMark[ss.id] = len(ss.messages())
			}
		}
		if viaAPI {
			// "nothing further is sent" counts from the API call; a write that was already blocked in
			// the transport when the call was made (stalled link) cannot be recalled: one frame
			for i, fp := range w.fakes {
				if fp.id == tid || !second {
					frameMark[i] = len(fp.recv)
				}
			}
			inFlightAllowance = 0
			if stalledAtT {
				inFlightAllowance = 1
				s.probe("bl_api_with_write_in_flight")
			}
		} else {
			for i, fp := range w.fakes {
				frameMark[i] = len(fp.recv)
			}
		}
		sopMark = len(sops)
		// probes: lifecycle position
		switch {
		case target == nil:
			s.probe("bl_before_connect")
		case !target.connected():
			s.probe("bl_while_disconnected")
		case target.in == nil || !target.inAlive():
			s.probe("bl_before_outbound_stream")
		default:
			s.probe("bl_while_established")
		}
		if len(s.parkedGates()) > 0 {
			s.probe("bl_with_messages_in_validation")
		}
		if gs := w.n.gs(); gs != nil {
			for _, m := range gs.mesh {
				if _, ok := m[tid]; ok {
					s.probe("bl_while_in_mesh")
				}
			}
		}
		if gs := w.n.gs(); gs != nil && fanoutBefore[tid] {
			s.probe("bl_while_in_fanout")
		}
		if viaAPI {
			// at that moment: queue closed, absent from peer lists, mesh and fanout
			if _, ok := w.n.ps.peers[tid]; ok {
				s.violate("C16", "api", "C16/api/queue-not-closed", "after BlacklistPeer the target still has an outbound queue")
			}
			// (The statement speaks of the node's peer lists: ListPeers, below, for every topic. The
			// internal topic map may still hold a peer that never had an outbound queue; ListPeers
			// intersects it with the queues. Noted in DESIGN.md as an observation.)
			for _, t := range w.topics[1:] {
				t := t
				c := s.do("ListPeers "+t, func() any { return w.n.ps.ListPeers(t) })
				if l, ok := c.res.([]peer.ID); ok {
					for _, x := range l {
						if x == tid {
							s.violate("C16", "api", "C16/api/still-in-listpeers", "after BlacklistPeer the target is still returned by ListPeers(%s)", t)
						}
					}
				}
			}
			if gs := w.n.gs(); gs != nil {
				for t, m := range gs.mesh {
					if _, ok := m[tid]; ok {
						s.violate("C16", "api", "C16/api/still-in-mesh", "after BlacklistPeer the target is still in the mesh of %s", t)
					}
				}
				for t, m := range gs.fanout {
					if _, ok := m[tid]; ok {
						s.violate("C16", "api", "C16/api/still-in-fanout", "after BlacklistPeer the target is still in the fanout of %s", t)
					}
				}
			}
			c := s.do("ListPeers", func() any { return w.n.ps.ListPeers(w.topicName(0)) })
			if l, ok := c.res.([]peer.ID); ok {
				for _, x := range l {
					if x == tid {
						s.violate("C16", "api", "C16/api/still-in-listpeers", "after BlacklistPeer the target is still returned by ListPeers")
					}
				}
			}
		}
	}
	// after every item: nothing from / by / to the target after T
	w.afterItem = append(w.afterItem, func(it Item) {
		if T < 0 {
			return
		}
		if target == nil {
			target = w.fake(1)
		}
		act := active()
		// deliveries
		for _, ss := range w.n.subs {
			ms := ss.messages()
			for k := delivMark[ss.id]; k < len(ms); k++ {
				m := ms[k]
				if !act {
					continue
				}
				if m.ReceivedFrom == tid {
					s.violate("C16", "inject", "C16/delivered-from-blacklisted-forwarder", "a message received from the blacklisted peer was delivered at %v (blacklisted at %v)", s.now(), T)
				} else if peer.ID(m.GetFrom()) == tid {
					s.violate("C16", "inject", "C16/delivered-blacklisted-author", "a message authored by the blacklisted peer (forwarded by %s) was delivered at %v (blacklisted at %v)", shortPeer(m.ReceivedFrom), s.now(), T)
				} else {
					s.probe("delivery_after_T_checked")
				}
			}
			delivMark[ss.id] = len(ms)
		}
		// frames
		for i, fp := range w.fakes {
			for k := frameMark[i]; k < len(fp.recv); k++ {
				o := fp.recv[k]
				if !act {
					continue
				}
				if fp.id == tid {
					if viaAPI && inFlightAllowance > 0 {
						inFlightAllowance--
						continue
					}
					if viaAPI {
						s.violate("C16", "receive", "C16/api/frame-sent-to-blacklisted", "a frame (%s) was written to the blacklisted peer at %v (BlacklistPeer at %v)", descRPC(o.rpc), o.t, T)
					}
					continue
				}
				for _, m := range o.rpc.GetPublish() {
					if peer.ID(m.GetFrom()) == tid {
						s.violate("C16", "inject", "C16/forwarded-blacklisted-author", "a message authored by the blacklisted peer was forwarded to %s at %v (blacklisted at %v)", fp.name, o.t, T)
					} else if mm := w.sent[midOf(m)]; mm != nil && w.sentBy[midOf(m)][tid] && len(w.sentBy[midOf(m)]) == 1 {
						s.violate("C16", "inject", "C16/forwarded-from-blacklisted-forwarder", "a message received only from the blacklisted peer was forwarded to %s at %v (blacklisted at %v)", fp.name, o.t, T)
					}
				}
			}
			frameMark[i] = len(fp.recv)
		}
		// an outbound stream to the target that completes after T is reset and carries no frame
		if target != nil && act && target.in != nil && target.inAlive() && target.inOpened > T {
			s.violate("C16", "stream", "C16/stream-to-blacklisted-kept", "an outbound stream to the blacklisted peer completed at %v (blacklisted at %v) and was not reset", target.inOpened, T)
		}
		if target != nil && target.inOpened > T && target.inGenFrames() > 0 && act {
			s.violate("C16", "stream", "C16/frame-on-late-stream", "frames were written on an outbound stream to the blacklisted peer that completed after the blacklisting")
		}
		_ = sopMark
	})
	w.atEnd = append(w.atEnd, func() {
		s.nontrivial = T >= 0
		s.class = fmt.Sprintf("%s/%s/%v/%x", w.n.router, p.ks("blacklist", "map"), viaAPI, shortHash([]byte(c13ClassStrAll(w))))
	})
	w.run()
}
