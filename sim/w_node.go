package pubsub

// W-NODE: one real node surrounded by scripted wire-level peers. Generic plan interpreter,
// snapshots of router state at quiescence, heartbeat-aligned observation.

import (
	"context"
	"fmt"
	"math"
	"sort"
	"sync"
	"time"

	pb "github.com/libp2p/go-libp2p-pubsub/pb"
	"github.com/libp2p/go-libp2p-pubsub/timecache"
	"github.com/libp2p/go-libp2p/core/network"
	"github.com/libp2p/go-libp2p/core/peer"
	"github.com/libp2p/go-libp2p/core/protocol"
)

var protoByIdx = []protocol.ID{GossipSubID_v13, GossipSubID_v12, GossipSubID_v11, GossipSubID_v10, FloodSubID, RandomSubID}

func protoName(p protocol.ID) string { return string(p) }

// fakeProtos: what a scripted peer of "version" v advertises (a real peer of that version would
// advertise the version and everything older).
func fakeProtoList(v int) []protocol.ID {
	switch v {
	case 0:
		return []protocol.ID{GossipSubID_v13, GossipSubID_v12, GossipSubID_v11, GossipSubID_v10, FloodSubID}
	case 1:
		return []protocol.ID{GossipSubID_v12, GossipSubID_v11, GossipSubID_v10, FloodSubID}
	case 2:
		return []protocol.ID{GossipSubID_v11, GossipSubID_v10, FloodSubID}
	case 3:
		return []protocol.ID{GossipSubID_v10, FloodSubID}
	case 4:
		return []protocol.ID{FloodSubID}
	default:
		return []protocol.ID{RandomSubID, FloodSubID}
	}
}

type snapshot struct {
	t        time.Duration
	ticks    uint64
	mesh     map[string]map[peer.ID]bool
	fanout   map[string]map[peer.ID]bool
	lastpub  map[string]int64
	gsPeers  map[peer.ID]protocol.ID
	direct   map[peer.ID]bool
	backoff  map[string]map[peer.ID]time.Time
	outbound map[peer.ID]bool
	topics   map[string]map[peer.ID]peerTopicState
	psPeers  map[peer.ID]bool
	mySubs   map[string]int
	myRelays map[string]int
	scores   map[peer.ID]float64
	unwanted map[peer.ID]map[checksum]int
	control  map[peer.ID]bool
	gossip   map[peer.ID]bool
	penalty  map[peer.ID]float64
	recvMark map[int]int // per scripted peer: number of frames received so far
	rawMark  int         // number of raw trace records so far
	stalled  map[int]bool
	inAlive  map[int]bool
	outAlive map[int]bool
}

// frames returns the frames scripted peer i received in the window (pre, post].
func framesBetween(w *nodeWorld, i int, pre, post *snapshot) []wireObs {
	fp := w.fakes[i]
	if fp == nil {
		return nil
	}
	a, b := pre.recvMark[i], post.recvMark[i]
	if a > len(fp.recv) {
		a = len(fp.recv)
	}
	if b > len(fp.recv) {
		b = len(fp.recv)
	}
	if a >= b {
		return nil
	}
	return fp.recv[a:b]
}

func rawBetween(w *nodeWorld, pre, post *snapshot) []rawRec {
	w.n.mu.Lock()
	defer w.n.mu.Unlock()
	a, b := pre.rawMark, post.rawMark
	if b > len(w.n.raw) {
		b = len(w.n.raw)
	}
	if a >= b {
		return nil
	}
	return append([]rawRec(nil), w.n.raw[a:b]...)
}

type nodeWorld struct {
	s      *sim
	plan   *Plan
	n      *simNode
	fakes  map[int]*fakePeer
	forder []int
	topics []string

	amu      sync.Mutex
	appScore map[peer.ID]float64

	missedHB int
	hbSeen   int

	afterItem      []func(it Item)
	skipItem       func(it Item) bool
	afterHostStart func(h *simHost)
	blacklisted    map[peer.ID]bool
	afterHeartbeat []func(pre, post *snapshot)
	beforeItem     []func(it Item)
	atEnd          []func()

	lastSnap       *snapshot
	lastDisconnect map[peer.ID]time.Duration
	streamsGoneAt  map[peer.ID]time.Duration
	vals           []*simValidator
	valCalls       []valCall
	keyRng         *prng
	msgSeq         int
	sent           map[string]*pb.Message // messages sent by fakes, by id
	sentBy         map[string]map[peer.ID]bool
	sentAt         map[string]time.Duration // first time a message id was sent by a scripted peer
	extraOps       map[string]func(it Item)

	teeTracers     func(mem EventTracer) EventTracer
	ghost          func(topic string, data []byte) *pb.Message // message authored by an unconnected identity
	onFakePub      func(fp *fakePeer, m *pb.Message)
	localHook      func(topic string, data []byte, c *call)
	localMids      map[string]string // payload -> message id of local publications (seen by validators)
	localDelivered map[string]int
}

func (w *nodeWorld) topicName(i int64) string {
	if len(w.topics) == 0 {
		return "t0"
	}
	if i < 0 {
		i = -i
	}
	return w.topics[int(i)%len(w.topics)]
}

func (w *nodeWorld) setAppScore(p peer.ID, v float64) {
	w.amu.Lock()
	w.appScore[p] = v
	w.amu.Unlock()
}

func (w *nodeWorld) getAppScore(p peer.ID) float64 {
	w.amu.Lock()
	defer w.amu.Unlock()
	return w.appScore[p]
}

func gsParamsFromPlan(p *Plan) GossipSubParams {
	gp := DefaultGossipSubParams()
	gp.D = p.ki("D", gp.D)
	gp.Dlo = p.ki("Dlo", gp.Dlo)
	gp.Dhi = p.ki("Dhi", gp.Dhi)
	gp.Dscore = p.ki("Dscore", gp.Dscore)
	gp.Dout = p.ki("Dout", gp.Dout)
	gp.Dlazy = p.ki("Dlazy", gp.Dlazy)
	gp.GossipFactor = p.k("gossip_factor", gp.GossipFactor)
	gp.HeartbeatInterval = time.Duration(p.ki("hb_ms", 1000)) * time.Millisecond
	gp.HeartbeatInitialDelay = time.Duration(p.ki("hb_init_ms", 100))*time.Millisecond + 7 // +7ns: see sim.snap
	gp.PruneBackoff = time.Duration(p.ki("prune_backoff_s", 60)) * time.Second
	gp.UnsubscribeBackoff = time.Duration(p.ki("unsub_backoff_s", 10)) * time.Second
	gp.GraftFloodThreshold = time.Duration(p.ki("graft_flood_ms", 10000)) * time.Millisecond
	gp.HistoryLength = p.ki("history_len", gp.HistoryLength)
	gp.HistoryGossip = p.ki("history_gossip", gp.HistoryGossip)
	gp.GossipRetransmission = p.ki("gossip_retx", gp.GossipRetransmission)
	gp.MaxIHaveLength = p.ki("max_ihave_len", gp.MaxIHaveLength)
	gp.MaxIHaveMessages = p.ki("max_ihave_msgs", gp.MaxIHaveMessages)
	gp.MaxIDontWantLength = p.ki("max_idw_len", gp.MaxIDontWantLength)
	gp.MaxIDontWantMessages = p.ki("max_idw_msgs", gp.MaxIDontWantMessages)
	gp.IDontWantMessageTTL = p.ki("idw_ttl", gp.IDontWantMessageTTL)
	gp.IDontWantMessageThreshold = p.ki("idw_threshold", gp.IDontWantMessageThreshold)
	gp.IWantFollowupTime = time.Duration(p.ki("followup_ms", 3000)) * time.Millisecond
	gp.OpportunisticGraftTicks = uint64(p.ki("opp_ticks", int(gp.OpportunisticGraftTicks)))
	gp.OpportunisticGraftPeers = p.ki("opp_peers", gp.OpportunisticGraftPeers)
	gp.FanoutTTL = time.Duration(p.ki("fanout_ttl_s", 60)) * time.Second
	if p.kb("fanout_ttl_max") {
		gp.FanoutTTL = time.Duration(math.MaxInt64) // "never expire"
	}
	gp.PrunePeers = p.ki("prune_peers", gp.PrunePeers)
	gp.DirectConnectTicks = uint64(p.ki("direct_ticks", 300))
	gp.Connectors = p.ki("connectors", 2)
	gp.MaxPendingConnections = p.ki("max_pending_conns", gp.MaxPendingConnections)
	gp.ConnectionTimeout = time.Duration(p.ki("conn_timeout_ms", 30000)) * time.Millisecond
	return gp
}

func newNodeWorld(s *sim) *nodeWorld {
	p := s.plan
	s.scheduleWriters() // undone in teardown (releaseWriters)
	w := &nodeWorld{s: s, plan: p, fakes: map[int]*fakePeer{}, appScore: map[peer.ID]float64{}, sent: map[string]*pb.Message{}, sentBy: map[string]map[peer.ID]bool{}, sentAt: map[string]time.Duration{}, extraOps: map[string]func(Item){}, localMids: map[string]string{}, localDelivered: map[string]int{}, lastDisconnect: map[peer.ID]time.Duration{}, streamsGoneAt: map[peer.ID]time.Duration{}}
	w.keyRng = newPrng(p.Seed, "keys")
	nt := p.ki("ntopics", 1)
	for i := 0; i < nt; i++ {
		w.topics = append(w.topics, fmt.Sprintf("t%d", i))
	}
	return w
}

// nodeOptions builds the option list for the node under test from the plan's knobs.
func (w *nodeWorld) nodeOptions() (string, []Option) {
	p := w.plan
	router := p.ks("router", "gossipsub")
	var opts []Option
	opts = append(opts, WithPeerOutboundQueueSize(p.ki("queue_size", 32)))
	opts = append(opts, WithValidateWorkers(p.ki("workers", 1)))
	if v := p.ki("max_msg_size", 0); v > 0 {
		opts = append(opts, WithMaxMessageSize(v))
	}
	if v := p.ki("seen_ttl_ms", 0); v > 0 {
		opts = append(opts, WithSeenMessagesTTL(time.Duration(v)*time.Millisecond))
	}
	if p.kb("seen_last") {
		opts = append(opts, WithSeenMessagesStrategy(timecache.Strategy_LastSeen))
	}
	if p.ks("sign_via", "") == "legacy" {
		// the same four policies through the deprecated (still supported) pair of switches
		switch p.ks("sign", "strict") {
		case "strict":
			opts = append(opts, WithMessageSigning(true), WithStrictSignatureVerification(true))
		case "strictnosign":
			opts = append(opts, WithMessageSigning(false))
		case "laxsign":
			opts = append(opts, WithStrictSignatureVerification(false))
		case "laxnosign":
			opts = append(opts, WithStrictSignatureVerification(false), WithMessageSigning(false))
		}
	} else {
		switch p.ks("sign", "strict") {
		case "strict":
		case "strictnosign":
			opts = append(opts, WithMessageSignaturePolicy(StrictNoSign))
		case "laxsign":
			opts = append(opts, WithMessageSignaturePolicy(LaxSign))
		case "laxnosign":
			opts = append(opts, WithMessageSignaturePolicy(LaxNoSign))
		}
	}
	if v := p.ki("val_queue", 0); v > 0 {
		opts = append(opts, WithValidateQueueSize(v))
	}
	if v := p.ki("val_throttle", 0); v > 0 {
		opts = append(opts, WithValidateThrottle(v))
	}
	if router == "gossipsub" {
		opts = append(opts, WithGossipSubParams(gsParamsFromPlan(p)))
		if p.kb("scoring") {
			sp := &PeerScoreParams{
				AppSpecificScore:  func(pid peer.ID) float64 { return w.getAppScore(pid) },
				AppSpecificWeight: 1,
				DecayInterval:     time.Second,
				DecayToZero:       0.01,
				RetainScore:       time.Duration(p.ki("retain_score_s", 10)) * time.Second,
				SeenMsgTTL:        time.Duration(p.ki("score_seen_ttl_ms", 0)) * time.Millisecond,
				Topics:            map[string]*TopicScoreParams{},
			}
			if bw := p.k("behaviour_weight", 0); bw != 0 {
				sp.BehaviourPenaltyWeight = bw
				sp.BehaviourPenaltyDecay = p.k("behaviour_decay", 0.9)
				sp.BehaviourPenaltyThreshold = p.k("behaviour_threshold", 0)
			}
			th := &PeerScoreThresholds{
				GossipThreshold:             p.k("gossip_thr", -10),
				PublishThreshold:            p.k("publish_thr", -20),
				GraylistThreshold:           p.k("graylist_thr", -30),
				AcceptPXThreshold:           p.k("acceptpx_thr", 10),
				OpportunisticGraftThreshold: p.k("oppgraft_thr", 1),
			}
			opts = append(opts, WithPeerScore(sp, th))
		}
		if p.kb("px") {
			opts = append(opts, WithPeerExchange(true))
		}
		if p.kb("flood_publish") {
			opts = append(opts, WithFloodPublish(true))
		} else {
			opts = append(opts, WithFloodPublish(false))
		}
		if p.kb("gater") {
			gp := NewPeerGaterParams(p.k("gater_threshold", 0.33), ScoreParameterDecay(2*time.Minute), ScoreParameterDecay(time.Hour))
			gp.RetainStats = time.Duration(p.ki("gater_retain_s", 20)) * time.Second
			gp.Quiet = time.Duration(p.ki("gater_quiet_s", 60)) * time.Second
			opts = append(opts, WithPeerGater(gp))
		}
	}
	return router, opts
}

// ---------------------------------------------------------------------------------------------
// simulator-owned validators

type simValidator struct {
	w        *nodeWorld
	idx      int
	topic    string // "" = default validator
	inline   bool
	timeout  time.Duration
	conc     int
	mu       sync.Mutex
	inFlight int
	maxSeen  int
}

type valCall struct {
	val     int
	mid     string
	from    peer.ID
	t       time.Duration
	verdict ValidationResult
	parked  bool
	ctxDone bool // returned because its context ended
	local   bool
}

// verdictFor: the verdict validator j gives message id (hash-derived: stable under shrinking).
func (w *nodeWorld) verdictFor(j int, mid string) ValidationResult {
	x := w.s.hf(fmt.Sprintf("verdict|%d|%s", j, mid))
	pr, pi, pw := w.plan.k("p_reject", 0), w.plan.k("p_ignore", 0), w.plan.k("p_weird", 0)
	switch {
	case x < pr:
		return ValidationReject
	case x < pr+pi:
		return ValidationIgnore
	case x < pr+pi+pw:
		// out-of-range values on both sides of the enumeration
		return []ValidationResult{7, 3, -1, -5, 100}[w.s.hn(fmt.Sprintf("weird|%d|%s", j, mid), 5)]
	}
	return ValidationAccept
}

func (w *nodeWorld) parkFor(j int, mid string) bool {
	return w.s.hf(fmt.Sprintf("park|%d|%s", j, mid)) < w.plan.k("p_park", 0)
}

func (v *simValidator) validate(ctx context.Context, from peer.ID, msg *Message) ValidationResult {
	w := v.w
	mid := w.n.ps.idGen.ID(msg)
	verdict := w.verdictFor(v.idx, mid)
	park := w.parkFor(v.idx, mid)
	v.mu.Lock()
	v.inFlight++
	if v.inFlight > v.maxSeen {
		v.maxSeen = v.inFlight
	}
	v.mu.Unlock()
	call := valCall{val: v.idx, mid: mid, from: from, t: w.s.now(), verdict: verdict, parked: park, local: msg.Local || from == w.n.h.id}
	if call.local {
		w.s.mu.Lock()
		w.localMids[string(msg.GetData())] = mid
		w.s.mu.Unlock()
	}
	if park {
		done := ctx.Done()
		if w.plan.kb("val_ignore_ctx") {
			done = nil // an application validator that does not watch its context
		}
		_, ok := w.s.park(fmt.Sprintf("val%d|%x", v.idx, shortHash([]byte(mid))), mid, nil, done)
		if !ok {
			call.ctxDone = true
			if !w.plan.kb("val_ctx_keep") {
				call.verdict = ValidationIgnore
			}
			// (val_ctx_keep: a validator that gives up when its context ends and answers what it had
			// decided anyway - the typical bool validator returning false)
		}
	}
	v.mu.Lock()
	v.inFlight--
	v.mu.Unlock()
	w.s.mu.Lock()
	w.valCalls = append(w.valCalls, call)
	w.s.mu.Unlock()
	w.s.note("validate v%d %x -> %d", v.idx, shortHash([]byte(mid)), call.verdict)
	return call.verdict
}

func (w *nodeWorld) calls() []valCall {
	w.s.mu.Lock()
	defer w.s.mu.Unlock()
	return append([]valCall(nil), w.valCalls...)
}

// validatorOptions builds default validators from knobs: nval_default (0..3), v<j>_inline,
// v<j>_timeout_ms, v<j>_conc. A topic validator (index 3) is registered after start when
// knob topic_val is set.
func (w *nodeWorld) validatorOptions() []Option {
	var opts []Option
	n := w.plan.ki("nval_default", 0)
	for j := 0; j < n; j++ {
		v := &simValidator{w: w, idx: j, inline: w.plan.kb(fmt.Sprintf("v%d_inline", j)),
			timeout: time.Duration(w.plan.ki(fmt.Sprintf("v%d_timeout_ms", j), 0)) * time.Millisecond, conc: w.plan.ki(fmt.Sprintf("v%d_conc", j), 0)}
		w.vals = append(w.vals, v)
		vo := []ValidatorOpt{WithValidatorInline(v.inline)}
		if v.timeout > 0 {
			vo = append(vo, WithValidatorTimeout(v.timeout))
		}
		if v.conc > 0 {
			vo = append(vo, WithValidatorConcurrency(v.conc))
		}
		opts = append(opts, WithDefaultValidator(ValidatorEx(v.validate), vo...))
	}
	return opts
}

func (w *nodeWorld) registerTopicValidators() {
	if !w.plan.kb("topic_val") {
		return
	}
	for ti, t := range w.topics {
		if ti > 0 && !w.plan.kb("topic_val_all") {
			break
		}
		j := 3 + ti
		v := &simValidator{w: w, idx: j, topic: t, inline: w.plan.kb("v3_inline"),
			timeout: time.Duration(w.plan.ki("v3_timeout_ms", 0)) * time.Millisecond, conc: w.plan.ki("v3_conc", 0)}
		w.vals = append(w.vals, v)
		vo := []ValidatorOpt{WithValidatorInline(v.inline)}
		if v.timeout > 0 {
			vo = append(vo, WithValidatorTimeout(v.timeout))
		}
		if v.conc > 0 {
			vo = append(vo, WithValidatorConcurrency(v.conc))
		}
		t := t
		w.s.do("RegisterTopicValidator "+t, func() any { return w.n.ps.RegisterTopicValidator(t, ValidatorEx(v.validate), vo...) })
	}
}

func (w *nodeWorld) startNode(extra ...Option) error {
	router, opts := w.nodeOptions()
	opts = append(opts, w.validatorOptions()...)
	opts = append(opts, extra...)
	kr := newPrng(w.plan.Seed, "nodekey")
	n, err := w.s.newNode("N", genKey(kr, w.plan.ki("node_key_type", 0)), nodeCfg{router: router, opts: opts, rsize: w.plan.ki("rsize", 3), tee: w.teeTracers, afterHostStart: w.afterHostStart})
	if err != nil {
		return err
	}
	w.n = n
	if w.plan.kb("connect_block") {
		// dials take until their deadline (an unreachable address): the Connect seam parks durably
		n.h.connectHook = func(ctx context.Context, pi peer.AddrInfo) error {
			<-ctx.Done()
			return ctx.Err()
		}
	}
	if pf := w.plan.k("p_open_fail", 0); pf > 0 {
		// the node's attempts to open a stream fail now and then (first opens and re-opens after a
		// stream loss alike), or take longer than usual
		s := w.s
		n.h.openFail = func(to peer.ID, k int) (bool, time.Duration) {
			// (root goroutine: open requests are handled at quiescence)
			x := s.hf(fmt.Sprintf("openfail|%s|%d", to, k))
			switch {
			case x < pf:
				return true, 0
			case x < pf+0.1:
				s.fault("stream_open_slow")
				return false, time.Duration(5+s.hn(fmt.Sprintf("openslow|%s|%d", to, k), 3000)) * time.Millisecond
			}
			return false, 0
		}
	}
	w.s.settle()
	w.registerTopicValidators()
	return nil
}

// restartNode: crash and restart of the node under test. The old instance's context is cancelled
// and its connections are closed; a fresh instance with the same identity is created on a new
// simulated host; scripted peers are re-attached to it (they have to reconnect explicitly).
func (w *nodeWorld) restartNode(extra ...Option) {
	s := w.s
	old := w.n
	for _, fp := range w.allFakes() {
		if fp.connected() {
			fp.disconnect()
		}
	}
	s.run(s.now())
	old.cancel()
	s.settle()
	router, opts := w.nodeOptions()
	w.vals = nil
	opts = append(opts, w.validatorOptions()...)
	opts = append(opts, extra...)
	kr := newPrng(w.plan.Seed, "nodekey")
	delete(s.byID, old.h.id)
	n, err := s.newNode(fmt.Sprintf("N%d", len(s.nodes)), genKey(kr, w.plan.ki("node_key_type", 0)), nodeCfg{router: router, opts: opts, rsize: w.plan.ki("rsize", 3)})
	if err != nil {
		s.violate("SIM", "setup", "SIM/setup", "node restart failed: %v", err)
		return
	}
	w.n = n
	for _, fp := range w.allFakes() {
		fp.node = n
		fp.in, fp.out, fp.conn = nil, nil, nil
	}
	s.settle()
	w.registerTopicValidators()
	// the application subscribes again and the peers come back
	s.do("Subscribe t0 (after restart)", func() any { _, err := n.subscribe("t0", 1024); return err })
	for _, fp := range w.allFakes() {
		fp.connect(fp.dir)
		fp.identify()
		s.settle()
		fp.openStream(fp.h.fakeProtos[len(fp.h.fakeProtos)-1])
		s.settle()
		fp.send(rpcSub("t0", true))
		s.settle()
	}
	s.run(s.now() + 5*time.Millisecond)
}

// fake returns (creating on demand) scripted peer i. A: [idx, version, dir(0=in,1=out), keytype]
func (w *nodeWorld) fake(i int) *fakePeer { return w.fakes[i] }

func (w *nodeWorld) addFake(i int, version int, ipGroup int) *fakePeer {
	if fp := w.fakes[i]; fp != nil {
		return fp
	}
	kr := newPrng(w.plan.Seed, fmt.Sprintf("fakekey%d", i))
	ip := fmt.Sprintf("10.1.%d.%d", ipGroup, 1+i%200)
	if ipGroup >= 100 { // shared address group
		ip = fmt.Sprintf("10.2.%d.1", ipGroup)
	}
	fp := w.s.newFakePeer(fmt.Sprintf("F%d", i), genKey(kr, 0), ip, fakeProtoList(version), w.n)
	fp.version = version
	w.fakes[i] = fp
	w.forder = append(w.forder, i)
	sort.Ints(w.forder)
	return fp
}

func (w *nodeWorld) allFakes() []*fakePeer {
	var out []*fakePeer
	for _, i := range w.forder {
		out = append(out, w.fakes[i])
	}
	return out
}

func (w *nodeWorld) fakeByID(id peer.ID) *fakePeer {
	for _, fp := range w.fakes {
		if fp.id == id {
			return fp
		}
	}
	return nil
}

// mkData produces a deterministic payload of n bytes, unique per call.
func (w *nodeWorld) mkData(n int) []byte {
	w.msgSeq++
	if n < 4 {
		n = 4
	}
	b := make([]byte, n)
	r := newPrng(w.plan.Seed, fmt.Sprintf("data%d", w.msgSeq))
	copy(b, r.bytes(n))
	b[0], b[1] = byte(w.msgSeq>>8), byte(w.msgSeq)
	return b
}

// exec runs one plan item (root goroutine, at quiescence). Unknown prerequisites make the item
// a no-op, so that shrinking can delete items freely.
func (w *nodeWorld) exec(it Item) {
	w.exec1(it)
	if it.Op != "adv" {
		w.s.run(w.s.now()) // quiesce and execute everything due at this instant (one event per step)
	}
}

func (w *nodeWorld) exec1(it Item) {
	s := w.s
	switch it.Op {
	case "adv":
		w.advance(time.Duration(it.a(0)) * time.Millisecond)
		return
	case "adv-to-minute": // [offset ms] to the next whole minute of virtual time (sweep ticks of the time caches) plus or minus an offset
		now := w.s.now()
		target := (now/time.Minute+1)*time.Minute + time.Duration(it.a(0))*time.Millisecond
		if target > now {
			w.advance(target - now)
		}
		return
	case "peer": // [idx, version, dir, ipgroup]
		if w.fakes[int(it.a(0))] != nil {
			return
		}
		fp := w.addFake(int(it.a(0)), int(it.a(1)), int(it.a(3)))
		dir := network.DirInbound
		if it.a(2) == 1 {
			dir = network.DirOutbound
		}
		fp.connect(dir)
	case "identify":
		if fp := w.fake(int(it.a(0))); fp != nil && fp.connected() {
			fp.identify()
		}
	case "open": // fake opens its stream; optional protocol override A[1] (index+1 into protoByIdx)
		if fp := w.fake(int(it.a(0))); fp != nil && fp.connected() {
			proto := fp.h.fakeProtos[0]
			if it.a(1) > 0 && int(it.a(1)) <= len(protoByIdx) {
				proto = protoByIdx[it.a(1)-1]
			}
			if w.n.h.handlerFor(proto) == nil {
				// the node does not speak it: pick the first the node handles
				for _, q := range fp.h.fakeProtos {
					if w.n.h.handlerFor(q) != nil {
						proto = q
						break
					}
				}
			}
			if fp.outAlive() {
				return // one inbound stream at a time unless "open2" is used
			}
			fp.openStream(proto)
		}
	case "open2": // open a second inbound stream while the first is alive (handler replacement)
		if fp := w.fake(int(it.a(0))); fp != nil && fp.connected() {
			fp.openStream(fp.h.fakeProtos[0])
		}
	case "sub":
		w.fsend(it, rpcSub(w.topicName(it.a(1)), true))
	case "unsub":
		w.fsend(it, rpcSub(w.topicName(it.a(1)), false))
	case "graft":
		w.fsend(it, rpcGraft(w.topicName(it.a(1))))
	case "prune": // [idx, topic, backoff_s, number of (unsigned) peer-exchange records]
		var px []*pb.PeerInfo
		for k := int64(0); k < it.a(3); k++ {
			kr := newPrng(w.plan.Seed, fmt.Sprintf("pxghost%d", k))
			id, _ := peer.IDFromPrivateKey(genKey(kr, 0))
			px = append(px, &pb.PeerInfo{PeerID: []byte(id)})
		}
		w.fsend(it, rpcPrune(w.topicName(it.a(1)), uint64(it.a(2)), px))
	case "pub", "pubdup": // [idx, topic, size] valid message authored by the fake (pubdup: twice in one RPC)
		if fp := w.fake(int(it.a(0))); fp != nil && fp.outAlive() {
			m := w.newMsg(fp, w.topicName(it.a(1)), w.mkData(int(it.a(2))))
			w.sent[midOf(m)] = m
			w.noteSentBy(fp, m)
			if w.onFakePub != nil {
				w.onFakePub(fp, m)
			}
			if it.Op == "pubdup" {
				// the same message twice in one RPC
				fp.send(rpcPub(m, m))
			} else {
				fp.send(rpcPub(m))
			}
		}
	case "fwd": // [idx, topic, size, author idx] valid message authored by another fake, forwarded by idx
		fp, au := w.fake(int(it.a(0))), w.fake(int(it.a(3)))
		if fp != nil && au == nil && w.ghost != nil && fp.outAlive() {
			m := w.ghost(w.topicName(it.a(1)), w.mkData(int(it.a(2))))
			w.sent[midOf(m)] = m
			w.noteSentBy(fp, m)
			if w.onFakePub != nil {
				w.onFakePub(fp, m)
			}
			fp.send(rpcPub(m))
			break
		}
		if fp != nil && au != nil && fp.outAlive() {
			m := w.newMsg(au, w.topicName(it.a(1)), w.mkData(int(it.a(2))))
			w.sent[midOf(m)] = m
			w.noteSentBy(fp, m)
			if w.onFakePub != nil {
				w.onFakePub(fp, m)
			}
			fp.send(rpcPub(m))
		}
	case "resend": // [idx, k] forward the k-th most recent known message again from idx
		if fp := w.fake(int(it.a(0))); fp != nil && fp.outAlive() && len(w.sent) > 0 {
			ids := w.sentIDs()
			m := w.sent[ids[int(it.a(1))%len(ids)]]
			w.noteSentBy(fp, m)
			if w.onFakePub != nil {
				w.onFakePub(fp, m)
			}
			fp.send(rpcPub(m))
		}
	case "ihave": // [idx, topic, n, unseen]
		if fp := w.fake(int(it.a(0))); fp != nil && fp.outAlive() {
			var ids []string
			for k := 0; k < int(it.a(2)); k++ {
				ids = append(ids, fmt.Sprintf("unseen-%d-%d-%d", it.a(0), w.msgSeq, k))
				w.msgSeq++
			}
			fp.send(rpcIHave(w.topicName(it.a(1)), ids...))
		}
	case "iwant": // [idx, k] ask for the k-th known message (every fourth request: for an ID nobody knows)
		if fp := w.fake(int(it.a(0))); fp != nil && fp.outAlive() && it.a(1)%4 == 3 {
			fp.send(rpcIWant(fmt.Sprintf("no-such-message-%d", it.a(1))))
		} else if fp != nil && fp.outAlive() && len(w.sent) > 0 {
			ids := w.sentIDs()
			fp.send(rpcIWant(ids[int(it.a(1))%len(ids)]))
		}
	case "idontwant":
		if fp := w.fake(int(it.a(0))); fp != nil && fp.outAlive() && len(w.sent) > 0 {
			ids := w.sentIDs()
			fp.send(rpcIDontWant(ids[int(it.a(1))%len(ids)]))
		}
	case "reset-out":
		if fp := w.fake(int(it.a(0))); fp != nil {
			fp.resetOut()
		}
	case "close-out":
		if fp := w.fake(int(it.a(0))); fp != nil {
			fp.closeOut()
		}
	case "reset-in":
		if fp := w.fake(int(it.a(0))); fp != nil {
			fp.disturbed = true
			fp.resetIn()
		}
	case "close-in":
		if fp := w.fake(int(it.a(0))); fp != nil {
			fp.disturbed = true
			fp.closeIn()
		}
	case "disconnect":
		if fp := w.fake(int(it.a(0))); fp != nil {
			fp.disturbed = true
			w.lastDisconnect[fp.id] = s.now()
			fp.disconnect()
		}
	case "reconnect": // [idx, dir]
		if fp := w.fake(int(it.a(0))); fp != nil && !fp.connected() {
			dir := network.DirInbound
			if it.a(1) == 1 {
				dir = network.DirOutbound
			}
			fp.connect(dir)
		}
	case "stall":
		if fp := w.fake(int(it.a(0))); fp != nil {
			fp.stall(it.a(1) != 0)
			if it.a(1) != 0 {
				fp.everStalled = true
				s.fault("peer_stalled")
			}
		}
	case "score": // [idx, milli]
		if fp := w.fake(int(it.a(0))); fp != nil {
			w.setAppScore(fp.id, float64(it.a(1))/1000)
		}
	case "node-sub": // [topic]
		topic := w.topicName(it.a(0))
		s.do("Subscribe "+topic, func() any {
			_, err := w.n.subscribe(topic, 1024)
			return err
		})
		return
	case "node-cancel": // [k] cancel k-th live subscription
		var live []*simSub
		for _, ss := range w.n.subs {
			if !ss.canc {
				live = append(live, ss)
			}
		}
		if len(live) == 0 {
			return
		}
		ss := live[int(it.a(0))%len(live)]
		ss.canc = true
		ss.cancAt = s.now()
		s.do(fmt.Sprintf("Cancel sub%d", ss.id), func() any { ss.sub.Cancel(); return nil })
		return
	case "node-relay":
		topic := w.topicName(it.a(0))
		s.do("Relay "+topic, func() any {
			t, err := w.n.topic(topic)
			if err != nil {
				return err
			}
			c, err := t.Relay()
			if err != nil {
				return err
			}
			w.n.mu.Lock()
			w.n.relays[topic] = append(w.n.relays[topic], c)
			w.n.mu.Unlock()
			return nil
		})
		return
	case "node-relay-cancel":
		topic := w.topicName(it.a(0))
		w.n.mu.Lock()
		rs := w.n.relays[topic]
		var c RelayCancelFunc
		if len(rs) > 0 {
			c = rs[len(rs)-1]
			w.n.relays[topic] = rs[:len(rs)-1]
		}
		w.n.mu.Unlock()
		if c != nil {
			s.do("RelayCancel "+topic, func() any { c(); return nil })
		}
		return
	case "node-pub": // [topic, size]
		topic := w.topicName(it.a(0))
		data := w.mkData(int(it.a(1)))
		c := s.do("Publish "+topic, func() any {
			t, err := w.n.topic(topic)
			if err != nil {
				return err
			}
			return t.Publish(context.Background(), data)
		})
		if w.localHook != nil {
			w.localHook(topic, data, c)
		}
		return
	case "blacklist":
		if fp := w.fake(int(it.a(0))); fp != nil {
			fp.disturbed = true
			if w.blacklisted == nil {
				w.blacklisted = map[peer.ID]bool{}
			}
			w.blacklisted[fp.id] = true
			s.do("BlacklistPeer "+fp.name, func() any { w.n.ps.BlacklistPeer(fp.id); return nil })
		}
		return
	case "direct-add":
		if fp := w.fake(int(it.a(0))); fp != nil && w.n.gs() != nil {
			s.do("AddDirectPeer "+fp.name, func() any { return w.n.ps.AddDirectPeer(peer.AddrInfo{ID: fp.id}) })
		}
		return
	case "direct-rm":
		if fp := w.fake(int(it.a(0))); fp != nil && w.n.gs() != nil {
			s.do("RemoveDirectPeer "+fp.name, func() any { return w.n.ps.RemoveDirectPeer(fp.id) })
		}
		return
	case "release": // [k] release the k-th parked application callback
		gs := s.parkedGates()
		if len(gs) == 0 {
			return
		}
		s.release(gs[int(it.a(0))%len(gs)], 0)
	case "release-all":
		for _, g := range s.parkedGates() {
			s.release(g, 0)
			s.settle()
		}
	default:
		if f := w.extraOps[it.Op]; f != nil {
			f(it)
		}
	}
	s.settle()
}

// newMsg: a message authored by scripted peer au that the node's signature policy accepts.
func (w *nodeWorld) newMsg(au *fakePeer, topic string, data []byte) *pb.Message {
	switch w.plan.ks("sign", "strict") {
	case "strictnosign", "laxnosign":
		return mkUnsignedMsg(au.id, topic, data, au.nextSeqno())
	}
	return au.signedMsg(topic, data)
}

// midFor: the message id as the node computes it (default id function unless a plan overrides it).
func (w *nodeWorld) midFor(m *pb.Message) string { return DefaultMsgIdFn(m) }

func (w *nodeWorld) fakeIndex(id peer.ID) (int, bool) {
	for i, fp := range w.fakes {
		if fp.id == id {
			return i, true
		}
	}
	return 0, false
}

func (w *nodeWorld) noteSentBy(fp *fakePeer, m *pb.Message) {
	id := midOf(m)
	if w.sentBy[id] == nil {
		w.sentBy[id] = map[peer.ID]bool{}
		w.sentAt[id] = w.s.now()
	}
	w.sentBy[id][fp.id] = true
}

func (w *nodeWorld) fsend(it Item, rpc *pb.RPC) {
	if fp := w.fake(int(it.a(0))); fp != nil && fp.outAlive() {
		fp.send(rpc)
	}
}

func (w *nodeWorld) sentIDs() []string {
	ids := make([]string, 0, len(w.sent))
	for id := range w.sent {
		ids = append(ids, id)
	}
	sort.Strings(ids)
	return ids
}

// nextHeartbeat returns the first heartbeat instant strictly after t.
func (w *nodeWorld) nextHeartbeat(t time.Duration) (time.Duration, bool) {
	n := w.n
	if n == nil || n.hbEvery == 0 {
		return 0, false
	}
	if t < n.hbFirst {
		return n.hbFirst, true
	}
	k := (t-n.hbFirst)/n.hbEvery + 1
	return n.hbFirst + k*n.hbEvery, true
}

// advance runs the clock for d, stopping 1ns before and 1ns after each heartbeat of the node to
// take the snapshots the heartbeat-relative oracles need.
func (w *nodeWorld) advance(d time.Duration) {
	s := w.s
	target := s.now() + d
	for !s.stopped {
		nh, ok := w.nextHeartbeat(s.now())
		if !ok || nh+1 > target || (len(w.afterHeartbeat) == 0) {
			break
		}
		s.run(nh - 1)
		if s.stopped {
			return
		}
		pre := w.snapshot()
		s.run(nh + 1)
		s.settle()
		post := w.snapshot()
		if post.ticks == pre.ticks+1 {
			w.hbSeen++
			for _, f := range w.afterHeartbeat {
				f(pre, post)
			}
		} else {
			w.missedHB++
			s.probes["missed_heartbeat"]++
		}
		w.lastSnap = post
	}
	s.run(target)
}

func copyPeerSet(m map[peer.ID]struct{}) map[peer.ID]bool {
	o := make(map[peer.ID]bool, len(m))
	for k := range m {
		o[k] = true
	}
	return o
}

// snapshot reads the router state directly: it is only called at quiescence, when the event
// loop is parked in its select and no other goroutine of the node runs.
func (w *nodeWorld) snapshot() *snapshot {
	n := w.n
	sn := &snapshot{t: w.s.now(), mesh: map[string]map[peer.ID]bool{}, fanout: map[string]map[peer.ID]bool{},
		gsPeers: map[peer.ID]protocol.ID{}, direct: map[peer.ID]bool{}, backoff: map[string]map[peer.ID]time.Time{},
		outbound: map[peer.ID]bool{}, topics: map[string]map[peer.ID]peerTopicState{}, psPeers: map[peer.ID]bool{},
		mySubs: map[string]int{}, myRelays: map[string]int{}, scores: map[peer.ID]float64{}, lastpub: map[string]int64{},
		unwanted: map[peer.ID]map[checksum]int{}, control: map[peer.ID]bool{}, gossip: map[peer.ID]bool{}, penalty: map[peer.ID]float64{},
		recvMark: map[int]int{}, stalled: map[int]bool{}, inAlive: map[int]bool{}, outAlive: map[int]bool{}}
	for i, fp := range w.fakes {
		sn.recvMark[i] = len(fp.recv)
		sn.inAlive[i] = fp.inAlive()
		sn.outAlive[i] = fp.outAlive()
		sn.stalled[i] = fp.stalledNow()
	}
	n.mu.Lock()
	sn.rawMark = len(n.raw)
	n.mu.Unlock()
	p := n.ps
	for t, m := range p.topics {
		c := map[peer.ID]peerTopicState{}
		for k, v := range m {
			c[k] = v
		}
		sn.topics[t] = c
	}
	for k := range p.peers {
		sn.psPeers[k] = true
	}
	for t, m := range p.mySubs {
		sn.mySubs[t] = len(m)
	}
	for t, c := range p.myRelays {
		sn.myRelays[t] = c
	}
	gs := n.gs()
	if gs == nil {
		return sn
	}
	sn.ticks = gs.heartbeatTicks
	for t, m := range gs.mesh {
		sn.mesh[t] = copyPeerSet(m)
	}
	for t, m := range gs.fanout {
		sn.fanout[t] = copyPeerSet(m)
	}
	for t, v := range gs.lastpub {
		sn.lastpub[t] = v
	}
	for k, v := range gs.peers {
		sn.gsPeers[k] = v
	}
	for k := range gs.direct {
		sn.direct[k] = true
	}
	for t, m := range gs.backoff {
		c := map[peer.ID]time.Time{}
		for k, v := range m {
			c[k] = v
		}
		sn.backoff[t] = c
	}
	for k, v := range gs.outbound {
		sn.outbound[k] = v
	}
	for k, m := range gs.unwanted {
		c := map[checksum]int{}
		for a, b := range m {
			c[a] = b
		}
		sn.unwanted[k] = c
	}
	for k := range gs.control {
		sn.control[k] = true
	}
	for k := range gs.gossip {
		sn.gossip[k] = true
	}
	if gs.score != nil {
		ids := map[peer.ID]bool{}
		for k := range gs.peers {
			ids[k] = true
		}
		for _, fp := range w.fakes {
			ids[fp.id] = true
		}
		for k := range ids {
			sn.scores[k] = gs.score.Score(k)
		}
		gs.score.Lock()
		for k, st := range gs.score.peerStats {
			sn.penalty[k] = st.behaviourPenalty
		}
		gs.score.Unlock()
	}
	return sn
}

// run executes the whole plan.
func (w *nodeWorld) run() {
	s := w.s
	for _, it := range w.plan.Items {
		if s.stopped || len(s.viol) > 0 {
			break
		}
		s.steps++
		s.logf("ITEM %s %v %v", it.Op, it.A, it.S)
		for _, f := range w.beforeItem {
			f(it)
		}
		if w.skipItem != nil && w.skipItem(it) {
			continue
		}
		w.exec(it)
		for _, f := range w.afterItem {
			f(it)
		}
	}
	if !s.stopped && len(s.viol) == 0 {
		for _, f := range w.atEnd {
			f()
		}
	}
	s.teardown()
}
