package pubsub

// C12 — no input from remote peers can crash the node or stall its event loop.
// W-NODE with every optional component on; scripted peers send byte-level garbage and
// structurally valid but hostile RPCs, mixed with honest traffic. Oracle: no panic (a panic in
// any goroutine kills the worker; the driver attributes it to the announced plan), containment
// (only the offending stream is reset) and a liveness probe after every hostile input.

import (
	"context"
	"encoding/binary"
	"fmt"
	"sync"

	"github.com/libp2p/go-libp2p-pubsub/partialmessages"
	pb "github.com/libp2p/go-libp2p-pubsub/pb"
	"github.com/libp2p/go-libp2p/core/peer"
	"github.com/libp2p/go-libp2p/core/record"
)

func init() {
	registerProp("C12", genC12, map[string]func(*sim){"node": runC12})
}

type memMetaStore struct {
	mu sync.Mutex
	m  map[peer.ID][]byte
}

func (s *memMetaStore) Get(ctx context.Context, p peer.ID) ([]byte, error) {
	s.mu.Lock()
	defer s.mu.Unlock()
	return s.m[p], nil
}
func (s *memMetaStore) Put(ctx context.Context, p peer.ID, v []byte) error {
	s.mu.Lock()
	defer s.mu.Unlock()
	s.m[p] = v
	return nil
}

const (
	c12RawKinds     = 12
	c12HostileKinds = 39
)

func genC12(seed uint64, tier string) *Plan {
	r := newPrng(seed, "c12")
	p := &Plan{World: "node", Knobs: map[string]float64{}, SK: map[string]string{}}
	routers := []string{"gossipsub", "gossipsub", "gossipsub", "floodsub", "randomsub"}
	p.SK["router"] = routers[r.intn(len(routers))]
	p.SK["sign"] = []string{"strict", "strict", "strictnosign", "laxsign", "laxnosign"}[r.intn(5)]
	p.Knobs["ntopics"] = 2
	p.Knobs["scoring"] = float64(b2i(r.chance(0.7)))
	if r.chance(0.25) {
		p.Knobs["p_open_fail"] = []float64{0.15, 0.4, 0.8}[r.intn(3)] // stream opens that fail or are slow
	}
	p.Knobs["gater"] = float64(b2i(r.chance(0.3)))
	p.Knobs["px"] = float64(b2i(r.chance(0.6)))
	p.Knobs["seqno_validator"] = float64(b2i(r.chance(0.7)))
	p.Knobs["seqno_inline"] = float64(b2i(r.chance(0.5)))
	p.Knobs["sub_filter"] = float64(r.intn(3)) // 0 none, 1 allowlist+limit, 2 limit only
	p.Knobs["test_ext"] = float64(b2i(r.chance(0.4)))
	p.Knobs["partial_ext"] = float64(b2i(r.chance(0.4)))
	p.Knobs["inspector"] = float64(b2i(r.chance(0.3)))
	p.Knobs["max_msg_size"] = float64([]int{0, 0, 300, 1000, 4096}[r.intn(5)])
	p.Knobs["acceptpx_thr"] = 0
	p.Knobs["behaviour_weight"] = float64(-b2i(r.chance(0.5)))
	p.Knobs["hb_ms"] = 1000
	p.Knobs["workers"] = float64(r.rng(1, 2))
	p.Knobs["seen_ttl_ms"] = float64([]int{0, 0, 2000}[r.intn(3)])
	p.Knobs["val_throttle"] = float64([]int{0, 0, 1, 2, 4}[r.intn(5)]) // few slots for asynchronous validation
	p.Knobs["queue_size"] = float64([]int{2, 4, 32}[r.intn(3)])
	// protocol limits as tuning knobs: small values put the boundary cases within reach
	p.Knobs["max_ihave_len"] = float64([]int{2, 3, 5, 5000}[r.intn(4)])
	p.Knobs["max_ihave_msgs"] = float64([]int{1, 2, 10}[r.intn(3)])
	p.Knobs["max_idw_len"] = float64([]int{1, 3, 10}[r.intn(3)])
	p.Knobs["max_idw_msgs"] = float64([]int{1, 2, 1000}[r.intn(3)])
	p.Knobs["max_pending_conns"] = float64([]int{1, 2, 4, 128}[r.intn(4)])
	p.Knobs["connectors"] = float64(r.rng(1, 2))
	p.Knobs["connect_block"] = float64(b2i(r.chance(0.6)))
	p.Knobs["conn_timeout_ms"] = float64([]int{3000, 30000}[r.intn(2)])
	p.Knobs["prune_peers"] = float64([]int{2, 16}[r.intn(2)])
	genDegrees(r, p, 4)
	add := func(op string, a ...int64) { p.Items = append(p.Items, Item{Op: op, A: a}) }
	add("node-sub", 0)
	if r.chance(0.5) {
		add("node-sub", 1)
	}
	// peer 0 is the honest one: always fully established
	add("peer", 0, int64(r.intn(3)), int64(r.intn(2)), 0)
	add("identify", 0)
	add("adv", 5)
	add("open", 0)
	add("sub", 0, 0)
	np := r.rng(1, 3)
	for i := 1; i <= np; i++ {
		genBringUp(r, p, i, 2, 0.8)
	}
	n := r.rng(6, 25)
	if tier == "thorough" {
		n = r.rng(6, 60)
	}
	for k := 0; k < n; k++ {
		i := int64(1 + r.intn(np))
		x := r.intn(100)
		switch {
		case x < 3:
			// the peer kills the node's outbound stream again and again while staying connected (the
			// node gives up after MaxBackoffAttempts), then makes the router answer it
			for c := r.rng(4, 7); c > 0; c-- {
				add("reset-in", i)
				add("adv", int64(r.rng(900, 2500)))
			}
			add([]string{"graft", "sub"}[r.intn(2)], i, int64(r.intn(2)))
			add("hostile", i, int64(r.intn(c12HostileKinds)), int64(r.intn(1<<20)))
			add("node-sub", int64(r.intn(2)))
			add("probe")
		case x < 6:
			// a message comes back after the seen window has forgotten it, then once more as a duplicate
			add("pub", i, 0, int64(r.rng(8, 100)))
			add("adv", int64(r.rng(62000, 70000)))
			add("resend", i, 0)
			add("resend", int64(1+r.intn(np)), 0) // (not the honest peer: the message may exceed the size limit)
			add("probe")
		case x < 7:
			// the seen cache forgets a message at its sweep tick while the message cache still holds
			// it; a replay is accepted and cached a second time, then the first copy leaves the window
			p.Knobs["seen_ttl_ms"] = 2000
			add("graft", i, 0)
			add("adv-to-minute", int64(-r.rng(2100, 3800)))
			add("pub", i, 0, int64(r.rng(8, 100)))
			add("adv-to-minute", int64(r.rng(100, 900)))
			add("resend", i, 0)
			add("adv", int64(r.rng(1000, 7000)))
			add("probe")
			add("adv", int64(r.rng(1000, 3000)))
			add("probe")
		case x < 9:
			// the peer stops reading, traffic fills its queue, the application changes its subscriptions
			add("stall", i, 1)
			for c := r.rng(3, 8); c > 0; c-- {
				add("node-pub", 0, int64(r.rng(8, 200)))
			}
			add("node-sub", 1)
			add("adv", int64(r.rng(1100, 2500)))
			add("probe")
			add("node-cancel", int64(r.intn(3)))
			add("adv", int64(r.rng(1100, 2500)))
			add("probe")
			add("stall", i, 0)
		case x < 45:
			add("hostile", i, int64(r.intn(c12HostileKinds)), int64(r.intn(1<<20)))
		case x < 60:
			add("raw", i, int64(r.intn(c12RawKinds)), int64(r.intn(1<<20)))
		case x < 65:
			add("open", i)
		case x < 70:
			add("adv", int64(r.rng(1, 1500)))
		case x < 75:
			add("graft", i, int64(r.intn(2)))
		case x < 80:
			add("sub", i, int64(r.intn(2)))
		case x < 84:
			add("pub", i, int64(r.intn(2)), int64(r.rng(8, 300)))
		case x < 87:
			add("reset-in", i)
		case x < 90:
			add("node-pub", int64(r.intn(2)), int64(r.rng(8, 200)))
		case x < 93:
			add("score", i, int64(r.rng(-50, 20))*1000)
		case x < 96:
			add("identify", i)
		default:
			add("probe")
		}
	}
	add("adv", int64(r.rng(1000, 5000)))
	add("probe")
	return p
}

func runC12(s *sim) {
	w := newNodeWorld(s)
	p := w.plan
	var extra []Option
	store := &memMetaStore{m: map[peer.ID][]byte{}}
	if p.kb("seqno_validator") {
		extra = append(extra, WithDefaultValidator(NewBasicSeqnoValidator(store, discardLogger), WithValidatorInline(p.kb("seqno_inline"))))
	}
	switch p.ki("sub_filter", 0) {
	case 1:
		extra = append(extra, WithSubscriptionFilter(WrapLimitSubscriptionFilter(NewAllowlistSubscriptionFilter("t0", "t1", "t2"), 5)))
	case 2:
		extra = append(extra, WithSubscriptionFilter(WrapLimitSubscriptionFilter(NewAllowlistSubscriptionFilter("t0", "t1", "x", "y", "z", ""), 3)))
	}
	if p.ks("router", "gossipsub") == "gossipsub" {
		if p.kb("test_ext") {
			extra = append(extra, WithTestExtension(TestExtensionConfig{OnReceiveTestExtension: func(from peer.ID) { s.note("testext from %s", shortPeer(from)) }}))
		}
		if p.kb("partial_ext") {
			pm := &partialmessages.PartialMessagesExtension[int]{
				Logger:       discardLogger,
				OnEmitGossip: func(topic string, groupID []byte, gossipPeers []peer.ID, peerStates map[peer.ID]int) {},
				OnIncomingRPC: func(from peer.ID, peerStates map[peer.ID]int, rpc *pb.PartialMessagesExtension) error {
					peerStates[from]++
					return nil
				},
				PeerInitiatedGroupLimitPerTopic:        3,
				PeerInitiatedGroupLimitPerTopicPerPeer: 2,
			}
			extra = append(extra, WithPartialMessagesExtension(pm))
		}
	}
	if p.kb("inspector") {
		extra = append(extra, WithAppSpecificRpcInspector(func(from peer.ID, rpc *RPC) error {
			if len(rpc.GetPublish()) > 40 {
				return fmt.Errorf("too many")
			}
			return nil
		}))
	}
	if err := w.startNode(extra...); err != nil {
		s.violate("SIM", "setup", "SIM/setup", "node creation failed: %v", err)
		return
	}
	// containment bookkeeping: stream operations by the node in the current step
	type sop struct {
		st *simStream
		op string
	}
	var stepOps []sop
	w.n.h.onStreamOp = func(st *simStream, op string) { stepOps = append(stepOps, sop{st, op}) }
	hostileCount := 0
	throttled := false
	w.n.onRaw = func(r *rawRec) {
		if r.kind == "throttle" {
			throttled = true
		}
	}

	probe := func(why string) {
		// (1) the event loop answers an API call
		c := s.do("ListPeers", func() any { return len(w.n.ps.ListPeers("t0")) })
		if !c.isDone(s) {
			s.violate("C12", "liveness", "C12/liveness/api-blocked", "ListPeers did not return at quiescence after %s", why)
			return
		}
		// (2) a valid message from the honest peer is delivered
		h := w.fake(0)
		if h == nil || !h.outAlive() {
			s.probe("honest_stream_gone")
			if h != nil && h.connected() && h.out != nil {
				s.violate("C12", "containment", "C12/containment/honest-stream-reset", "the honest peer's inbound stream was closed by the node after %s", why)
			}
			return
		}
		var sub *simSub
		for _, ss := range w.n.subs {
			if ss.topic == "t0" && !ss.canc {
				sub = ss
			}
		}
		if sub == nil {
			return
		}
		before := len(sub.messages())
		throttled = false
		var m *pb.Message
		switch p.ks("sign", "strict") {
		case "strictnosign":
			m = mkUnsignedMsg(h.id, "t0", w.mkData(24), h.nextSeqno())
		default:
			m = h.signedMsg("t0", w.mkData(24))
		}
		h.send(rpcPub(m))
		s.settle()
		after := len(sub.messages())
		if after != before+1 {
			if throttled {
				s.probe("probe_waived_gater_throttle")
				return
			}
			if gs := w.n.gs(); gs != nil && gs.score != nil && gs.score.Score(h.id) < gs.graylistThreshold {
				s.probe("probe_waived_graylisted")
				return
			}
			s.violate("C12", "liveness", "C12/liveness/honest-delivery", "a valid message from the honest peer was not delivered after %s (deliveries %d -> %d)", why, before, after)
		} else {
			s.probe("liveness_probe_ok")
		}
	}

	w.extraOps["probe"] = func(it Item) { probe("probe item") }
	w.extraOps["raw"] = func(it Item) {
		fp := w.fake(int(it.a(0)))
		if fp == nil || !fp.outAlive() {
			return
		}
		kind := int(it.a(1)) % c12RawKinds
		b, _ := c12Raw(w, fp, kind, it.a(2))
		stepOps = nil
		target := fp.out.peer
		fp.sendRaw(b)
		s.settle()
		// framing model over everything sent on this stream so far
		expectReset := c12MustReset(fp.outBytes, w.n.ps.maxMessageSize)
		hostileCount++
		s.probe(fmt.Sprintf("raw_kind_%d", kind))
		reset := false
		for _, o := range stepOps {
			if o.st == target && o.op == "reset" {
				reset = true
			} else if o.st != target && (o.op == "reset" || o.op == "close") && o.st.conn.remote.id != fp.id {
				s.violate("C12", "containment", "C12/containment/other-stream-closed", "raw input kind %d on %s made the node %s stream %s of another peer", kind, fp.name, o.op, o.st.name)
			} else if o.st != target && (o.op == "reset" || o.op == "close") {
				s.violate("C12", "containment", "C12/containment/sibling-stream-closed", "raw input kind %d on %s made the node %s the peer's other stream %s", kind, fp.name, o.op, o.st.name)
			}
		}
		if expectReset && !reset {
			s.violate("C12", "containment", "C12/containment/no-reset", "malformed input kind %d on %s did not reset the stream", kind, fp.name)
		}
		if reset {
			s.probe("stream_reset_on_bad_frame")
		}
		probe(fmt.Sprintf("raw input kind %d", kind))
	}
	w.extraOps["hostile"] = func(it Item) {
		fp := w.fake(int(it.a(0)))
		if fp == nil || !fp.outAlive() {
			return
		}
		kind := int(it.a(1)) % c12HostileKinds
		rpc := c12Hostile(w, fp, kind, it.a(2))
		if rpc == nil {
			return
		}
		b, err := rpc.Marshal()
		if err != nil {
			return
		}
		if lim := w.n.ps.maxMessageSize; len(b) > lim {
			s.probe("hostile_rpc_oversized")
		}
		stepOps = nil
		fp.sendRaw(frame(b))
		s.settle()
		hostileCount++
		s.probe(fmt.Sprintf("hostile_kind_%d", kind))
		for _, o := range stepOps {
			if o.st.conn.remote.id != fp.id && (o.op == "reset" || o.op == "close") {
				s.violate("C12", "containment", "C12/containment/other-stream-closed", "hostile RPC kind %d from %s made the node %s stream %s of another peer", kind, fp.name, o.op, o.st.name)
			}
		}
		probe(fmt.Sprintf("hostile RPC kind %d", kind))
	}
	w.atEnd = append(w.atEnd, func() {
		s.nontrivial = hostileCount > 0
		s.class = fmt.Sprintf("%s/%s/%x", w.n.router, p.ks("sign", "strict"), shortHash([]byte(c13ClassStr(w))))
	})
	w.run()
}

func c13ClassStr(w *nodeWorld) string {
	s := ""
	for _, it := range w.plan.Items {
		if it.Op == "hostile" || it.Op == "raw" {
			s += fmt.Sprintf("%s%d,", it.Op[:1], it.a(1))
		}
	}
	return s
}

// c12Raw builds byte-level inputs. expectReset: the bytes contain a complete frame that is
// oversized or undecodable, so the stream must be reset.
func c12Raw(w *nodeWorld, fp *fakePeer, kind int, x int64) ([]byte, bool) {
	r := newPrng(w.plan.Seed, fmt.Sprintf("raw%d-%d", kind, x))
	lim := w.n.ps.maxMessageSize
	valid, _ := rpcSub("t1", true).Marshal()
	switch kind {
	case 0: // random bytes
		b := r.bytes(r.rng(1, 200))
		return b, c12MustReset(b, lim)
	case 1: // zero-length frames
		return []byte{0, 0, 0}, false
	case 2: // length == limit + 1, no payload yet
		b := make([]byte, binary.MaxVarintLen64)
		n := binary.PutUvarint(b, uint64(lim)+1)
		return b[:n], true
	case 3: // huge length 2^31
		b := make([]byte, binary.MaxVarintLen64)
		n := binary.PutUvarint(b, 1<<31)
		return b[:n], true
	case 4: // huge length 2^63
		b := make([]byte, binary.MaxVarintLen64)
		n := binary.PutUvarint(b, 1<<63)
		return b[:n], true
	case 5: // over-long varint (11 continuation bytes)
		return []byte{0x80, 0x80, 0x80, 0x80, 0x80, 0x80, 0x80, 0x80, 0x80, 0x80, 0x80, 0x01}, true
	case 6: // valid length + undecodable protobuf
		pl := []byte{0x0a, 0xff, 0xff, 0xff, 0xff, 0x0f, 0x01}
		return frame(pl), true
	case 7: // valid RPC followed by garbage
		g := []byte{0x05, 0xff, 0xff, 0xff, 0xff, 0xff}
		return append(frame(valid), g...), true
	case 8: // truncated frame (rest never comes in this item)
		f := frame(valid)
		return f[:len(f)-1], false
	case 9: // valid frame with unknown fields and wrong wire types for known fields
		pl := []byte{0x08, 0x01, 0x10, 0x02} // field 1 and 2 as varints (wire type mismatch)
		b := frame(pl)
		return b, c12MustReset(b, lim)
	case 10: // frame exactly at the limit filled with zeros (field number 0 is illegal)
		n := lim
		if n > 2000 {
			n = 2000
		}
		pl := make([]byte, n)
		return frame(pl), true
	default: // group end tag without start / nested length beyond buffer
		pl := []byte{0x1a, 0x7f, 0x01}
		return frame(pl), true
	}
}

// c12MustReset parses b as a sequence of frames the way the wire format is specified
// (unsigned-varint length prefix: at most 9 bytes, minimally encoded; protobuf payload) and
// tells whether a complete frame is oversized or fails to decode.
func c12MustReset(b []byte, lim int) bool {
	for len(b) > 0 {
		var l uint64
		n := 0
		for i := 0; ; i++ {
			if i >= len(b) {
				return false // incomplete prefix
			}
			c := b[i]
			if i == 8 && c >= 0x80 {
				return true // more than 9 bytes
			}
			if c < 0x80 {
				if c == 0 && i > 0 {
					return true // not minimal
				}
				l |= uint64(c) << (7 * uint(i))
				n = i + 1
				break
			}
			l |= uint64(c&0x7f) << (7 * uint(i))
		}
		if l > uint64(lim) {
			return true
		}
		if uint64(len(b)-n) < l {
			return false // incomplete
		}
		pl := b[n : n+int(l)]
		b = b[n+int(l):]
		if l == 0 {
			continue
		}
		var rpc pb.RPC
		if rpc.Unmarshal(pl) != nil {
			return true
		}
	}
	return false
}

func strp(s string) *string { return &s }

// c12Hostile builds structurally valid RPCs with adversarial field values.
func c12Hostile(w *nodeWorld, fp *fakePeer, kind int, x int64) *pb.RPC {
	r := newPrng(w.plan.Seed, fmt.Sprintf("hostile%d-%d", kind, x))
	topic := w.topicName(int64(r.intn(2)))
	t := true
	f := false
	big := func(n int) string { return string(r.bytes(n)) }
	switch kind {
	case 0: // validly signed message with a short / long sequence number
		ln := []int{0, 1, 3, 7, 9, 16}[r.intn(6)]
		m := &pb.Message{Data: w.mkData(16), Topic: &topic, From: []byte(fp.id), Seqno: r.bytes(ln)}
		if ln == 0 {
			m.Seqno = nil
		}
		signMessage(fp.id, fp.priv, m)
		return rpcPub(m)
	case 1: // unsigned message with a short sequence number (reaches validators under lax / no-sign policies)
		m := &pb.Message{Data: w.mkData(16), Topic: &topic, From: []byte(fp.id), Seqno: r.bytes([]int{1, 2, 5, 7}[r.intn(4)])}
		return rpcPub(m)
	case 2: // from is not a peer ID
		m := &pb.Message{Data: w.mkData(16), Topic: &topic, From: r.bytes(r.rng(0, 40)), Seqno: r.bytes(8), Signature: r.bytes(64)}
		return rpcPub(m)
	case 3: // key does not parse
		m := &pb.Message{Data: w.mkData(16), Topic: &topic, From: []byte(fp.id), Seqno: r.bytes(8), Signature: r.bytes(64), Key: r.bytes(r.rng(0, 50))}
		return rpcPub(m)
	case 4: // all optional fields absent
		return rpcPub(&pb.Message{})
	case 5: // nil topic / empty topic / huge topic
		ts := []*string{nil, strp(""), strp(big(300))}
		m := &pb.Message{Data: w.mkData(8), Topic: ts[r.intn(3)], From: []byte(fp.id), Seqno: r.bytes(8)}
		signMessage(fp.id, fp.priv, m)
		return rpcPub(m)
	case 6: // message names the node as author
		m := &pb.Message{Data: w.mkData(8), Topic: &topic, From: []byte(w.n.h.id), Seqno: r.bytes(8), Signature: r.bytes(64)}
		return rpcPub(m)
	case 7: // many messages in one RPC
		var ms []*pb.Message
		for i := 0; i < r.rng(20, 60); i++ {
			ms = append(ms, fp.signedMsg(topic, w.mkData(8)))
		}
		return rpcPub(ms...)
	case 8: // subscriptions: nil topic id, empty, huge count
		var subs []*pb.RPC_SubOpts
		n := []int{1, 4, 6, 40}[r.intn(4)]
		for i := 0; i < n; i++ {
			var tp *string
			switch r.intn(4) {
			case 0:
				tp = nil
			case 1:
				tp = strp("")
			case 2:
				tp = strp(fmt.Sprintf("x%d", i))
			default:
				tp = strp(topic)
			}
			sb := &t
			if r.chance(0.3) {
				sb = &f
			}
			if r.chance(0.1) {
				sb = nil
			}
			subs = append(subs, &pb.RPC_SubOpts{Topicid: tp, Subscribe: sb, RequestsPartial: &t, SupportsSendingPartial: &t})
		}
		return &pb.RPC{Subscriptions: subs}
	case 9: // IHAVE nil topic / unknown topic / empty ids / thousands of ids
		var ids []string
		n := []int{0, 1, 50, 3000}[r.intn(4)]
		for i := 0; i < n; i++ {
			ids = append(ids, big(r.rng(0, 12)))
		}
		tp := []*string{nil, strp("nope"), &topic, strp("")}[r.intn(4)]
		return &pb.RPC{Control: &pb.ControlMessage{Ihave: []*pb.ControlIHave{{TopicID: tp, MessageIDs: ids}, {}}}}
	case 10: // IWANT thousands / empty / unknown
		var ids []string
		n := []int{0, 1, 50, 3000}[r.intn(4)]
		for i := 0; i < n; i++ {
			ids = append(ids, big(r.rng(0, 40)))
		}
		if sent := w.sentIDs(); len(sent) > 0 {
			ids = append(ids, sent[0]) // sorted: ranging over the map would not replay
		}
		return &pb.RPC{Control: &pb.ControlMessage{Iwant: []*pb.ControlIWant{{MessageIDs: ids}, {}}}}
	case 11: // GRAFT unknown / nil topic, repeated
		var g []*pb.ControlGraft
		for i := 0; i < r.rng(1, 30); i++ {
			g = append(g, &pb.ControlGraft{TopicID: []*string{nil, strp("nope"), &topic, strp("")}[r.intn(4)]})
		}
		return &pb.RPC{Control: &pb.ControlMessage{Graft: g}}
	case 12: // PRUNE with bogus peer records
		var px []*pb.PeerInfo
		for i := 0; i < r.rng(1, 20); i++ {
			switch r.intn(5) {
			case 0:
				px = append(px, &pb.PeerInfo{})
			case 1:
				px = append(px, &pb.PeerInfo{PeerID: r.bytes(r.rng(0, 40)), SignedPeerRecord: r.bytes(r.rng(0, 100))})
			case 2:
				px = append(px, &pb.PeerInfo{PeerID: []byte(fp.id), SignedPeerRecord: []byte{}})
			case 3: // valid record for a different peer id
				other := genKey(r, 0)
				oid, _ := peer.IDFromPrivateKey(other)
				rec := peer.NewPeerRecord()
				rec.PeerID = oid
				env, err := record.Seal(rec, other)
				if err == nil {
					eb, _ := env.Marshal()
					px = append(px, &pb.PeerInfo{PeerID: []byte(fp.id + "x"), SignedPeerRecord: eb})
				}
			default: // valid envelope with a payload type that is not a peer record is not constructible here; use a valid one
				other := genKey(r, 0)
				oid, _ := peer.IDFromPrivateKey(other)
				rec := peer.NewPeerRecord()
				rec.PeerID = oid
				env, err := record.Seal(rec, other)
				if err == nil {
					eb, _ := env.Marshal()
					px = append(px, &pb.PeerInfo{PeerID: []byte(oid), SignedPeerRecord: eb})
				}
			}
		}
		bo := []uint64{0, 1, 1 << 40, ^uint64(0)}[r.intn(4)]
		pr := &pb.ControlPrune{TopicID: []*string{nil, strp("nope"), &topic}[r.intn(3)], Peers: px, Backoff: &bo}
		if r.chance(0.2) {
			pr.Backoff = nil
		}
		return &pb.RPC{Control: &pb.ControlMessage{Prune: []*pb.ControlPrune{pr}}}
	case 13: // IDONTWANT huge
		var ids []string
		for i := 0; i < []int{0, 1, 20, 2000}[r.intn(4)]; i++ {
			ids = append(ids, big(r.rng(0, 70)))
		}
		return &pb.RPC{Control: &pb.ControlMessage{Idontwant: []*pb.ControlIDontWant{{MessageIDs: ids}, {}}}}
	case 14: // repeated extension handshakes
		return rpcExtensions(r.chance(0.5), r.chance(0.5))
	case 15: // partial-message RPC with nil fields
		return &pb.RPC{Partial: &pb.PartialMessagesExtension{}}
	case 16: // partial-message RPCs exhausting group limits
		g := r.bytes(r.rng(0, 6))
		return &pb.RPC{Partial: &pb.PartialMessagesExtension{TopicID: []*string{nil, &topic, strp("nope")}[r.intn(3)], GroupID: g, PartialMessage: r.bytes(r.rng(0, 20)), PartsMetadata: r.bytes(r.rng(0, 20))}}
	case 17: // test extension field
		return &pb.RPC{TestExtension: &pb.TestExtension{}}
	case 18: // empty control, empty everything
		return &pb.RPC{Control: &pb.ControlMessage{}}
	case 19: // everything at once
		rpc := c12Hostile(w, fp, 9, x+1)
		o := c12Hostile(w, fp, 12, x+2)
		rpc.Control.Prune = o.Control.Prune
		rpc.Control.Graft = c12Hostile(w, fp, 11, x+3).Control.Graft
		rpc.Control.Iwant = c12Hostile(w, fp, 10, x+4).Control.Iwant
		rpc.Control.Idontwant = c12Hostile(w, fp, 13, x+5).Control.Idontwant
		rpc.Subscriptions = c12Hostile(w, fp, 8, x+6).Subscriptions
		rpc.Publish = c12Hostile(w, fp, 0, x+7).Publish
		rpc.Partial = c12Hostile(w, fp, 16, x+8).Partial
		return rpc
	case 20: // GRAFT flood for a joined topic (backoff + penalties)
		return rpcGraft(topic, topic, topic)
	case 21: // PRUNE then GRAFT in one RPC
		bo := uint64(r.intn(3))
		return &pb.RPC{Control: &pb.ControlMessage{Prune: []*pb.ControlPrune{{TopicID: &topic, Backoff: &bo}}, Graft: []*pb.ControlGraft{{TopicID: &topic}}}}
	case 22: // signature present but empty / 1 byte
		m := &pb.Message{Data: w.mkData(8), Topic: &topic, From: []byte(fp.id), Seqno: r.bytes(8), Signature: r.bytes(r.intn(2))}
		return rpcPub(m)
	case 23: // validly signed, seqno max / zero
		sq := make([]byte, 8)
		if r.chance(0.5) {
			for i := range sq {
				sq[i] = 0xff
			}
		}
		m := &pb.Message{Data: w.mkData(8), Topic: &topic, From: []byte(fp.id), Seqno: sq}
		signMessage(fp.id, fp.priv, m)
		return rpcPub(m)
	case 24: // subscribe with partial flags to a topic then request
		return &pb.RPC{Subscriptions: []*pb.RPC_SubOpts{{Topicid: &topic, Subscribe: &t, RequestsPartial: &t}}, Partial: &pb.PartialMessagesExtension{TopicID: &topic, GroupID: []byte("g"), PartsMetadata: []byte{1}}}
	case 25: // message id collisions: empty from and seqno under lax policies
		m := &pb.Message{Data: w.mkData(8), Topic: &topic}
		return rpcPub(m)
	case 26: // huge message id in IWANT/IHAVE/IDONTWANT (> 32 bytes and empty: checksum paths)
		id := big(r.rng(33, 200))
		return &pb.RPC{Control: &pb.ControlMessage{Ihave: []*pb.ControlIHave{{TopicID: &topic, MessageIDs: []string{id, ""}}}, Iwant: []*pb.ControlIWant{{MessageIDs: []string{id, ""}}}, Idontwant: []*pb.ControlIDontWant{{MessageIDs: []string{id, ""}}}}}
	case 27: // unsubscribe from things never subscribed, then subscribe twice
		return &pb.RPC{Subscriptions: []*pb.RPC_SubOpts{{Topicid: &topic, Subscribe: &f}, {Topicid: &topic, Subscribe: &t}, {Topicid: &topic, Subscribe: &t}, {Topicid: strp("zz"), Subscribe: &f}}}
	case 28: // signed by a key that needs to be attached (secp256k1 extracts; RSA would not) with wrong key attached
		other := genKey(r, 1)
		ob, _ := other.GetPublic().Raw()
		m := &pb.Message{Data: w.mkData(8), Topic: &topic, From: []byte(fp.id), Seqno: r.bytes(8), Signature: r.bytes(64), Key: ob}
		return rpcPub(m)
	case 30: // IHAVE with exactly MaxIHaveLength unseen ids for a joined topic (budget boundary)
		var ids []string
		n := w.plan.ki("max_ihave_len", 5000)
		if n > 200 {
			n = 200
		}
		for i := 0; i < n; i++ {
			ids = append(ids, fmt.Sprintf("u%d-%d-%d", x, i, r.intn(1<<30)))
		}
		return rpcIHave("t0", ids...)
	case 31: // one more unseen id in the same heartbeat interval
		return rpcIHave("t0", fmt.Sprintf("one-more-%d-%d", x, r.intn(1<<30)))
	case 32: // PRUNE for a joined topic with many validly signed PX records (connection requests pile up)
		var px []*pb.PeerInfo
		for i := 0; i < r.rng(3, 20); i++ {
			k := genKey(r, 0)
			id, _ := peer.IDFromPrivateKey(k)
			rec := peer.NewPeerRecord()
			rec.PeerID = id
			rec.Seq = 1
			env, err := record.Seal(rec, k)
			if err != nil {
				continue
			}
			eb, _ := env.Marshal()
			px = append(px, &pb.PeerInfo{PeerID: []byte(id), SignedPeerRecord: eb})
		}
		var prs []*pb.ControlPrune
		for i := 0; i < r.rng(1, 6); i++ {
			prs = append(prs, &pb.ControlPrune{TopicID: strp("t0"), Peers: px})
		}
		return &pb.RPC{Control: &pb.ControlMessage{Prune: prs}}
	case 33: // IDONTWANT with exactly the per-message limit, repeated
		var ids []string
		for i := 0; i < w.plan.ki("max_idw_len", 10); i++ {
			ids = append(ids, big(r.rng(1, 40)))
		}
		return &pb.RPC{Control: &pb.ControlMessage{Idontwant: []*pb.ControlIDontWant{{MessageIDs: ids}, {MessageIDs: ids}}}}
	case 34: // "signed" message whose author is a well-formed identity multihash over bytes that are no key
		garbage := [][]byte{{0xde, 0xad, 0xbe, 0xef, 0x00, 0x01}, {}, {0x08, 0x01}, {0x08, 0x01, 0x12, 0x20}, r.bytes(r.rng(1, 40))}[r.intn(5)]
		from := append([]byte{0x00, byte(len(garbage))}, garbage...)
		m := &pb.Message{Data: w.mkData(16), Topic: &topic, From: from, Seqno: fp.nextSeqno(), Signature: r.bytes([]int{0, 1, 64}[r.intn(3)])}
		return rpcPub(m)
	case 35: // the same with a key field that does not parse / parses to another kind of key
		from := append([]byte{0x00, 0x06}, 0xde, 0xad, 0xbe, 0xef, 0x00, 0x01)
		m := &pb.Message{Data: w.mkData(16), Topic: &topic, From: from, Seqno: fp.nextSeqno(), Signature: r.bytes(64), Key: [][]byte{{}, {0x08, 0x01, 0x12, 0x00}, r.bytes(20)}[r.intn(3)]}
		return rpcPub(m)
	case 37: // one frame that repeats a GRAFT for a joined topic very often, from a peer that is refused (in back-off after its own PRUNE)
		fp.send(rpcPrune("t0", uint64(r.rng(1, 120)), nil))
		n := []int{40, 700, 6000, 40000}[r.intn(4)]
		c := &pb.ControlMessage{}
		for i := 0; i < n; i++ {
			c.Graft = append(c.Graft, &pb.ControlGraft{TopicID: strp([]string{"t0", "t0", "t0", "t1"}[r.intn(4)])})
		}
		return &pb.RPC{Control: c}
	case 38: // PRUNE whose peer-exchange entry carries a correctly signed envelope of the peer-record domain with a payload of another registered record type
		k := genKey(r, 0)
		id, _ := peer.IDFromPrivateKey(k)
		env, err := record.Seal(&simOtherRecord{Note: r.bytes(r.rng(0, 30))}, k)
		if err != nil {
			return rpcPrune("t0", 1, nil)
		}
		eb, _ := env.Marshal()
		return rpcPrune("t0", uint64(r.rng(0, 60)), []*pb.PeerInfo{{PeerID: []byte(id), SignedPeerRecord: eb}})
	default: // extension handshake claiming everything + immediate partial
		rpc := rpcExtensions(true, true)
		rpc.Partial = &pb.PartialMessagesExtension{TopicID: &topic, GroupID: r.bytes(3), PartialMessage: r.bytes(10)}
		rpc.TestExtension = &pb.TestExtension{}
		return rpc
	}
}

// simOtherRecord: a record type that is registered (as e.g. the relay reservation voucher is in
// every libp2p host) and claims the peer-record envelope domain.
type simOtherRecord struct{ Note []byte }

func init() { record.RegisterType(&simOtherRecord{}) }

func (r *simOtherRecord) Domain() string                 { return peer.PeerRecordEnvelopeDomain }
func (r *simOtherRecord) Codec() []byte                  { return []byte{0x7f, 0x31} }
func (r *simOtherRecord) MarshalRecord() ([]byte, error) { return append([]byte{1}, r.Note...), nil }
func (r *simOtherRecord) UnmarshalRecord(b []byte) error {
	r.Note = append([]byte(nil), b...)
	return nil
}
