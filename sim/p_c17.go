package pubsub

// C17 — gossip stays within its protocol bounds and message-cache windows.
// W-NODE, gossipsub, parameters drawn small; heartbeats numbered through the tick counter; a
// model of what the node forwarded and when, built from what reached the wire.

import (
	"fmt"
	"time"

	pb "github.com/libp2p/go-libp2p-pubsub/pb"
	"github.com/libp2p/go-libp2p/core/peer"
)

func init() {
	registerProp("C17", genC17, map[string]func(*sim){"node": runC17})
}

func genC17(seed uint64, tier string) *Plan {
	r := newPrng(seed, "c17")
	p := &Plan{World: "node", Knobs: map[string]float64{}, SK: map[string]string{"router": "gossipsub"}}
	p.Knobs["ntopics"] = 1
	p.Knobs["scoring"] = 1
	p.Knobs["behaviour_weight"] = 0
	p.Knobs["hb_ms"] = 1000
	hl := r.rng(2, 6)
	p.Knobs["history_len"] = float64(hl)
	p.Knobs["history_gossip"] = float64(r.rng(1, hl))
	if r.chance(0.02) {
		// a message cache without any window: HistoryGossip <= HistoryLength still holds
		p.Knobs["history_len"], p.Knobs["history_gossip"] = 0, 0
	}
	p.Knobs["gossip_retx"] = float64(r.rng(0, 3)) // 0 is accepted: nothing is ever served on request
	p.Knobs["max_ihave_len"] = float64(r.rng(2, 20))
	p.Knobs["max_ihave_msgs"] = float64(r.rng(1, 4))
	p.Knobs["max_idw_msgs"] = float64(r.rng(1, 4))
	p.Knobs["max_idw_len"] = float64(r.rng(1, 5))
	p.Knobs["idw_ttl"] = float64(r.rng(1, 3))
	p.Knobs["idw_threshold"] = float64([]int{0, 64, 512, 2048}[r.intn(4)])
	p.Knobs["followup_ms"] = float64(r.rng(1, 5) * 1000)
	p.Knobs["gossip_thr"] = float64(-r.rng(0, 3))
	p.Knobs["publish_thr"] = p.Knobs["gossip_thr"] - 1
	p.Knobs["graylist_thr"] = p.Knobs["gossip_thr"] - 50
	p.Knobs["seen_ttl_ms"] = 600000
	p.Knobs["prune_backoff_s"] = 60
	p.Knobs["Dlazy"] = float64(r.rng(0, 12))
	p.Knobs["gossip_factor"] = []float64{0.25, 1}[r.intn(2)]
	// a stable mesh: degree parameters such that the mesh forms once and is not cut again
	D := r.rng(2, 4)
	p.Knobs["D"], p.Knobs["Dlo"], p.Knobs["Dhi"], p.Knobs["Dscore"], p.Knobs["Dout"] = float64(D), 1, float64(D+6), 0, 0
	p.Knobs["opp_ticks"] = 1 << 30
	oppGraft := r.chance(0.2)
	if oppGraft {
		// opportunistic grafting every 1..3 heartbeats: a well-scored outsider is pulled into a mesh
		// of unremarkable members in the same heartbeat that emits gossip
		p.Knobs["opp_ticks"] = float64(r.rng(1, 3))
		p.Knobs["oppgraft_thr"] = 5
		p.Knobs["opp_peers"] = float64(r.rng(1, 2))
	}
	if r.chance(0.35) { // a slow application validator: messages can sit in validation across heartbeats
		p.Knobs["nval_default"] = 1
		p.Knobs["v0_inline"] = float64(r.intn(2))
		p.Knobs["p_park"] = []float64{0.3, 0.7}[r.intn(2)]
		p.Knobs["workers"] = 2
		if r.chance(0.4) {
			// a validation queue that is easily full: requested messages can be dropped on arrival
			p.Knobs["workers"], p.Knobs["val_queue"], p.Knobs["v0_inline"], p.Knobs["p_park"] = 1, 1, 1, 0.9
		}
	}
	add := func(op string, a ...int64) { p.Items = append(p.Items, Item{Op: op, A: a}) }
	add("node-sub", 0)
	if r.chance(0.2) {
		// the node starts isolated: it publishes and lets heartbeats pass before the first peer arrives
		for k := r.rng(1, 3); k > 0; k-- {
			add("node-pub", 0, int64([]int{16, 70}[r.intn(2)]))
			add("adv", int64(r.rng(300, 1500)))
		}
		add("adv", int64(r.rng(1000, 9000)))
	}
	np := r.rng(4, 9)
	for i := 0; i < np; i++ {
		v := int64(r.intn(3)) // 1.3, 1.2, 1.1
		if r.chance(0.12) {
			v = 4
		}
		add("peer", int64(i), v, int64(r.intn(2)), int64(i))
		add("identify", int64(i))
		add("adv", 4)
		add("open", int64(i))
		add("sub", int64(i), 0)
		if r.chance(0.25) {
			add("score", int64(i), int64(p.Knobs["gossip_thr"]*1000)+int64([]int{-1000, -1, 0, 1}[r.intn(4)]))
		}
		if r.chance(0.08) {
			add("direct-add", int64(i))
		}
	}
	add("adv", int64(r.rng(1100, 2500)))
	n := r.rng(14, 44)
	if tier == "thorough" {
		n = r.rng(14, 90)
	}
	for k := 0; k < n; k++ {
		i := int64(r.intn(np))
		x := r.intn(100)
		switch {
		case x < 3 && oppGraft:
			add("score", i, int64(r.rng(6, 40))*1000)
		case x < 14:
			add("pub", i, 0, int64([]int{16, 70, 600, 2100}[r.intn(4)]))
		case x < 22:
			add("node-pub", 0, int64([]int{16, 70, 600}[r.intn(3)]))
		case x < 40:
			add("iwantk", i, int64(r.intn(8)), int64(r.rng(1, 3))) // ask for the k-th known message (n ids incl. unknown)
		case x < 48:
			add("ihavem", i, int64(r.rng(1, 6)), int64(r.intn(4))) // advertise n fresh messages; follow-up behaviour
		case x < 50:
			// the advertiser uses up its budget, drops its connection, comes back and advertises
			// again, all inside one heartbeat interval: the budget is per interval, not per connection
			add("ihavem", i, int64(r.rng(3, 8)), 0)
			add("disconnect", i)
			add("reconnect", i, int64(r.intn(2)))
			add("identify", i)
			add("adv", 5)
			add("open", i)
			add("sub", i, 0)
			add("adv", 2)
			add("ihavem", i, int64(r.rng(3, 8)), 0)
		case x < 56:
			add("ihaveseen", i, int64(r.rng(1, 4)))
		case x < 66:
			add("idwk", i, int64(r.intn(8)), int64(r.rng(1, 7)), int64(r.rng(1, 3))) // ids spread over 1..3 IDONTWANT entries
		case x < 70 && p.Knobs["nval_default"] > 0:
			add("release", int64(r.intn(4)))
		case x < 82:
			add("adv", int64(r.rng(300, 1400)))
		case x < 88:
			add("adv", int64(r.rng(1400, 6000)))
		case x < 92:
			add("followup", int64(r.intn(6)), int64(r.intn(np)))
		case x < 95:
			add("score", i, int64(p.Knobs["gossip_thr"]*1000)+int64([]int{-1000, -1, 0, 1, 1000}[r.intn(5)]))
		default:
			add("resend", i, int64(r.intn(6)))
		}
	}
	add("adv", int64(r.rng(6000, 9000)))
	return p
}

func runC17(s *sim) {
	w := newNodeWorld(s)
	if err := w.startNode(); err != nil {
		if w.plan.ki("history_len", 5) < 1 {
			// the library refuses a message cache without a window: nothing to check (counted)
			s.probe("params_rejected_by_validation")
			s.class = "rejected"
			s.teardown()
			return
		}
		s.violate("SIM", "setup", "SIM/setup", "node creation failed: %v", err)
		return
	}
	gs := w.n.gs()
	P := gs.params
	followup := P.IWantFollowupTime
	nJudged := 0
	// model: messages the node forwarded / published, with the tick count at that moment
	type fwd struct {
		tick  uint64
		topic string
		size  int
		msg   *pb.Message
	}
	forwarded := map[string]*fwd{}
	var order []string
	served := map[string]map[peer.ID]int{} // id -> peer -> times served
	// IDONTWANT model per peer: id -> remaining ttl
	unwanted := map[peer.ID]map[string]int{}
	ctlRPCs := map[peer.ID]int{}   // RPCs with a control part received from the peer in this heartbeat interval
	idwMsgs := map[peer.ID]int{}   // IDONTWANT RPCs accepted this heartbeat interval
	ihaveMsgs := map[peer.ID]int{} // IHAVE RPCs this interval
	asked := map[peer.ID]int{}     // ids asked from peer this interval
	lastTick := uint64(0)
	// promises: IWANTs the node sent
	type promise struct {
		to      peer.ID
		ids     []string
		expire  time.Duration
		counted bool
	}
	var promises []*promise
	arrived := map[string]time.Duration{} // id -> first time it reached validation
	fresh := map[string]*pb.Message{}     // advertised but not yet sent messages
	var freshOrder []string

	tickNow := func() uint64 { return gs.heartbeatTicks }
	roll := func() {
		t := tickNow()
		for lastTick < t {
			lastTick++
			idwMsgs = map[peer.ID]int{}
			ctlRPCs = map[peer.ID]int{}
			ihaveMsgs = map[peer.ID]int{}
			asked = map[peer.ID]int{}
			for _, m := range unwanted {
				for id := range m {
					m[id]--
					if m[id] <= 0 {
						delete(m, id)
					}
				}
			}
		}
	}
	var pre *snapshot
	var lastPub *pb.Message
	var lastPubBy *fakePeer
	sendCount := map[string]int{}
	w.onFakePub = func(fp *fakePeer, m *pb.Message) { lastPub, lastPubBy = m, fp; sendCount[midOf(m)]++ }
	w.n.onRaw = func(r *rawRec) {
		if r.kind == "send" && r.rpc != nil {
			var ids []string
			for _, iw := range r.rpc.GetControl().GetIwant() {
				ids = append(ids, iw.GetMessageIDs()...)
			}
			if len(ids) > 0 {
				s.mu.Lock()
				promises = append(promises, &promise{to: r.p, ids: ids, expire: r.t + followup})
				s.mu.Unlock()
			}
		}
		if r.kind == "validate" || r.kind == "deliver" {
			s.mu.Lock()
			if _, ok := arrived[r.mid]; !ok {
				arrived[r.mid] = r.t
			}
			s.mu.Unlock()
		}
	}
	// everything the node puts on the wire with a message in it is "forwarded"
	noteForwards := func(post *snapshot) {
		for _, i := range w.forder {
			for _, o := range framesBetween(w, i, pre, post) {
				for _, m := range o.rpc.GetPublish() {
					id := midOf(m)
					if forwarded[id] == nil {
						forwarded[id] = &fwd{tick: pre.ticks, topic: m.GetTopic(), size: len(m.GetData()), msg: m}
						order = append(order, id)
					}
				}
			}
		}
	}
	// local publications are part of the model even when nobody is there to receive them
	traceCur := 0
	noteLocalPublishes := func(tick uint64) {
		w.n.mu.Lock()
		evs := w.n.trace[traceCur:]
		traceCur = len(w.n.trace)
		w.n.mu.Unlock()
		for _, r := range evs {
			// DELIVER_MESSAGE is traced when a message (local or remote) leaves validation and is handed
			// to the router, which is the moment it enters the message cache
			if r.ev.GetType() == pb.TraceEvent_DELIVER_MESSAGE {
				id := string(r.ev.GetDeliverMessage().GetMessageID())
				if forwarded[id] == nil {
					forwarded[id] = &fwd{tick: tick, topic: r.ev.GetDeliverMessage().GetTopic()}
					order = append(order, id)
				}
			}
		}
	}
	eligibleAsker := func(sn *snapshot, id peer.ID) bool {
		return sn.direct[id] || sn.scores[id] >= gs.graylistThreshold
	}
	w.beforeItem = append(w.beforeItem, func(it Item) {
		roll()
		pre = w.snapshot()
		lastPub, lastPubBy = nil, nil
	})
	// --- ops ---
	w.extraOps["iwantk"] = func(it Item) {
		fp := w.fake(int(it.a(0)))
		if fp == nil || !fp.outAlive() || len(order) == 0 {
			return
		}
		var ids []string
		dup := map[string]bool{}
		for k := 0; k < int(it.a(2)); k++ {
			id := order[(int(it.a(1))+k*3)%len(order)]
			if !dup[id] {
				dup[id] = true
				ids = append(ids, id)
			}
		}
		ids = append(ids, "never-existed")
		ctlRPCs[fp.id]++
		fp.send(rpcIWant(ids...))
		s.settle()
		post := w.snapshot()
		got := map[string]bool{}
		i, _ := w.fakeIndex(fp.id)
		for _, o := range framesBetween(w, i, pre, post) {
			for _, m := range o.rpc.GetPublish() {
				got[midOf(m)] = true
			}
		}
		if !eligibleAsker(pre, fp.id) {
			return
		}
		reach := pre.inAlive[i] && post.inAlive[i] && !pre.stalled[i]
		seenReq := map[string]bool{}
		for _, id := range ids {
			if seenReq[id] || id == "never-existed" {
				continue
			}
			seenReq[id] = true
			f := forwarded[id]
			age := pre.ticks - f.tick
			nJudged++
			expect := true
			why := ""
			if served[id] == nil {
				served[id] = map[peer.ID]int{}
			}
			switch {
			case pre.scores[fp.id] < gs.gossipThreshold:
				expect, why = false, "below gossip threshold"
			case age >= uint64(P.HistoryLength):
				expect, why = false, fmt.Sprintf("outside the history window (%d >= %d heartbeats)", age, P.HistoryLength)
				s.probe("iwant_after_history_window")
				if age == uint64(P.HistoryLength) {
					s.probe("iwant_in_first_non_retrievable_interval")
				}
			case unwanted[fp.id][id] > 0:
				expect, why = false, "declared unwanted"
				s.probe("iwant_for_unwanted_id")
			default:
				served[id][fp.id]++ // every request inside the window counts
				if served[id][fp.id] > P.GossipRetransmission {
					expect, why = false, fmt.Sprintf("already requested %d times (limit %d)", served[id][fp.id], P.GossipRetransmission)
					s.probe("retransmission_limit_hit")
				}
				if age == uint64(P.HistoryLength)-1 {
					s.probe("iwant_in_last_retrievable_interval")
				}
			}
			if expect && !got[id] && reach {
				s.violate("C17", "iwant", "C17/iwant/not-served", "IWANT from %s for %x (forwarded %d heartbeats ago, history %d) was not answered", fp.name, shortHash([]byte(id)), age, P.HistoryLength)
			}
			if !expect && got[id] {
				s.violate("C17", "iwant", "C17/iwant/served-although/"+firstWord(why), "IWANT from %s for %x was answered although: %s", fp.name, shortHash([]byte(id)), why)
			}
			if expect && got[id] {
				s.probe("iwant_served_checked")
			}
		}
	}
	w.extraOps["idwk"] = func(it Item) {
		fp := w.fake(int(it.a(0)))
		if fp == nil || !fp.outAlive() || len(order) == 0 {
			return
		}
		var ids []string
		for k := 0; k < int(it.a(2)); k++ {
			ids = append(ids, order[(int(it.a(1))+k)%len(order)])
		}
		ctlRPCs[fp.id]++
		ne := int(it.a(3))
		if ne <= 1 || len(ids) < 2 {
			fp.send(rpcIDontWant(ids...))
		} else {
			// the same ids spread over several IDONTWANT entries of one RPC: the per-RPC cap counts them all
			s.probe("idontwant_multi_entry")
			rpc := &pb.RPC{Control: &pb.ControlMessage{}}
			per := (len(ids) + ne - 1) / ne
			for k := 0; k < len(ids); k += per {
				e := k + per
				if e > len(ids) {
					e = len(ids)
				}
				rpc.Control.Idontwant = append(rpc.Control.Idontwant, &pb.ControlIDontWant{MessageIDs: ids[k:e]})
			}
			fp.send(rpc)
		}
		if !eligibleAsker(pre, fp.id) {
			return
		}
		// model: at most MaxIDontWantMessages RPCs per heartbeat interval, MaxIDontWantLength ids each
		if idwMsgs[fp.id] >= P.MaxIDontWantMessages {
			s.probe("idontwant_rpc_over_limit")
			return
		}
		idwMsgs[fp.id]++
		if unwanted[fp.id] == nil {
			unwanted[fp.id] = map[string]int{}
		}
		for k, id := range ids {
			if k >= P.MaxIDontWantLength {
				s.probe("idontwant_ids_over_limit")
				break
			}
			unwanted[fp.id][id] = P.IDontWantMessageTTL
		}
	}
	mkFresh := func(fp *fakePeer, n int) []string {
		var ids []string
		for k := 0; k < n; k++ {
			m := fp.signedMsg("t0", w.mkData(20))
			id := midOf(m)
			fresh[id] = m
			freshOrder = append(freshOrder, id)
			ids = append(ids, id)
		}
		return ids
	}
	checkIWantReply := func(fp *fakePeer, ids []string) (requested []string) {
		s.settle()
		post := w.snapshot()
		i, _ := w.fakeIndex(fp.id)
		var req []string
		for _, o := range framesBetween(w, i, pre, post) {
			for _, iw := range o.rpc.GetControl().GetIwant() {
				req = append(req, iw.GetMessageIDs()...)
			}
		}
		requested = req
		reach := pre.inAlive[i] && post.inAlive[i] && !pre.stalled[i]
		if !eligibleAsker(pre, fp.id) {
			if len(req) > 0 {
				s.violate("C17", "ihave", "C17/ihave/graylisted-answered", "IHAVE from graylisted %s answered", fp.name)
			}
			return
		}
		// every requested id must be one the node has not seen
		for _, id := range req {
			if w.n.ps.seenMessages.Has(id) && fresh[id] == nil {
				s.violate("C17", "ihave", "C17/iwant-for-seen-id", "the node requested %x from %s although it has seen it", shortHash([]byte(id)), fp.name)
			}
			if _, ok := arrived[id]; ok {
				s.violate("C17", "ihave", "C17/iwant-for-seen-id", "the node requested %x from %s although the message already reached validation", shortHash([]byte(id)), fp.name)
			}
		}
		if pre.scores[fp.id] < gs.gossipThreshold {
			if len(req) > 0 {
				s.violate("C17", "ihave", "C17/ihave/below-threshold-answered", "IHAVE from %s below the gossip threshold answered", fp.name)
			}
			return
		}
		ihaveMsgs[fp.id]++
		unseen := 0
		for k, id := range ids {
			if k >= P.MaxIHaveLength {
				break
			}
			if _, ok := arrived[id]; !ok && !w.n.ps.seenMessages.Has(id) {
				unseen++
			}
		}
		want := 0
		_, joined := pre.mesh["t0"]
		switch {
		case !joined:
			// IHAVE for a topic the node has not joined is ignored
		case ihaveMsgs[fp.id] > P.MaxIHaveMessages:
			s.probe("ihave_rpc_over_limit")
		case asked[fp.id] >= P.MaxIHaveLength:
			s.probe("ihave_budget_exhausted")
		default:
			want = unseen
			if want+asked[fp.id] > P.MaxIHaveLength {
				want = P.MaxIHaveLength - asked[fp.id]
				s.probe("iwant_truncated_to_budget")
			}
		}
		nJudged++
		if len(req) > want {
			s.violate("C17", "ihave", "C17/iwant-over-budget", "the node requested %d ids from %s, the budget allows %d (IHAVE #%d this interval, limit %d; %d ids asked before, limit %d)", len(req), fp.name, want, ihaveMsgs[fp.id], P.MaxIHaveMessages, asked[fp.id], P.MaxIHaveLength)
		}
		firstCtl := ctlRPCs[fp.id] == 0
		ctlRPCs[fp.id]++
		// (the implementation counts every RPC with a control part against the IHAVE allowance of the
		// interval; the statement only bounds it from above, so the lower bound is asserted only for
		// the first control RPC of an interval: "the allowance is back after one heartbeat")
		if len(req) < want && reach && firstCtl {
			s.violate("C17", "ihave", "C17/iwant-under-budget", "the node requested %d ids from %s although %d unseen ids were advertised and the budget allows %d (allowance must be back after one heartbeat)", len(req), fp.name, unseen, want)
		}
		asked[fp.id] += len(req)
		if len(req) > 0 {
			s.probe("iwant_sent_by_node")
		}
		return
	}
	w.extraOps["ihavem"] = func(it Item) {
		fp := w.fake(int(it.a(0)))
		if fp == nil || !fp.outAlive() {
			return
		}
		ids := mkFresh(fp, int(it.a(1)))
		fp.send(rpcIHave("t0", ids...))
		req := checkIWantReply(fp, ids)
		if it.a(2) == 1 && len(req) > 0 {
			// an honest advertiser: everything the node asked for is delivered at once
			s.probe("all_requested_messages_delivered")
			for _, id := range req {
				m := fresh[id]
				if m == nil || !fp.outAlive() {
					continue
				}
				w.sent[id] = m
				w.noteSentBy(fp, m)
				lastPub, lastPubBy = m, fp
				sendCount[id]++
				fp.send(rpcPub(m))
				s.settle()
			}
		}
	}
	w.extraOps["ihaveseen"] = func(it Item) {
		fp := w.fake(int(it.a(0)))
		if fp == nil || !fp.outAlive() || len(order) == 0 {
			return
		}
		var ids []string
		for k := 0; k < int(it.a(1)); k++ {
			ids = append(ids, order[(k*5+int(it.a(0)))%len(order)])
		}
		fp.send(rpcIHave("t0", ids...))
		checkIWantReply(fp, ids)
	}
	w.extraOps["followup"] = func(it Item) { // send an advertised message: [k, sender]
		if len(freshOrder) == 0 {
			return
		}
		id := freshOrder[int(it.a(0))%len(freshOrder)]
		fp := w.fake(int(it.a(1)))
		if fp == nil || !fp.outAlive() || fresh[id] == nil {
			return
		}
		m := fresh[id]
		w.sent[id] = m
		w.noteSentBy(fp, m)
		lastPub, lastPubBy = m, fp
		sendCount[id]++
		if peer.ID(m.GetFrom()) != fp.id {
			s.probe("promise_fulfilled_by_third_peer")
		}
		fp.send(rpcPub(m))
	}
	// --- IDONTWANT emission on receipt (e) and general wire bookkeeping ---
	w.afterItem = append(w.afterItem, func(it Item) {
		if pre == nil || s.stopped {
			return
		}
		if it.Op == "disconnect" {
			// what a peer declared unwanted belongs to its session: gone with the connection
			if fp := w.fake(int(it.a(0))); fp != nil {
				delete(unwanted, fp.id)
			}
		}
		post := w.snapshot()
		noteLocalPublishes(pre.ticks)
		noteForwards(post)
		if it.Op == "pub" || it.Op == "followup" {
			var fp *fakePeer
			var m *pb.Message
			if it.Op == "pub" {
				fp = w.fake(int(it.a(0)))
			} else {
				fp = w.fake(int(it.a(1)))
			}
			if fp == nil || !pre.outAlive[fp.idx()] || !eligibleAsker(pre, fp.id) {
				return
			}
			// which message was that? the one the scripted peer sent in this item
			if lastPubBy == fp {
				m = lastPub
			}
			if m == nil {
				return
			}
			id := midOf(m)
			if sendCount[id] > 1 {
				return // a duplicate: no IDONTWANT expected
			}
			big := len(m.GetData()) >= P.IDontWantMessageThreshold
			if len(m.GetData()) == P.IDontWantMessageThreshold {
				s.probe("message_exactly_at_idontwant_threshold")
			}
			for _, i := range w.forder {
				o := w.fakes[i]
				n := 0
				for _, fr := range framesBetween(w, i, pre, post) {
					for _, d := range fr.rpc.GetControl().GetIdontwant() {
						for _, x := range d.GetMessageIDs() {
							if x == id {
								n++
							}
						}
					}
				}
				inMesh := pre.mesh["t0"][o.id]
				v12 := gs.feature(GossipSubFeatureIdontwant, pre.gsPeers[o.id])
				should := big && inMesh && v12 && o.id != fp.id
				reach := pre.inAlive[i] && post.inAlive[i] && !pre.stalled[i]
				if n > 0 && !should {
					why := "small message"
					switch {
					case o.id == fp.id:
						why = "the sender"
					case !inMesh:
						why = "not a mesh member"
					case !v12:
						why = "peer speaks < v1.2"
					}
					s.violate("C17", "idontwant", "C17/idontwant/sent-wrongly/"+firstWord(why), "IDONTWANT for a %d-byte message (threshold %d) sent to %s: %s", len(m.GetData()), P.IDontWantMessageThreshold, o.name, why)
				}
				if n == 0 && should && reach {
					s.violate("C17", "idontwant", "C17/idontwant/not-sent", "no IDONTWANT for a %d-byte message (threshold %d) sent to mesh member %s (%s)", len(m.GetData()), P.IDontWantMessageThreshold, o.name, pre.gsPeers[o.id])
				}
				if n > 0 && should {
					s.probe("idontwant_emitted_checked")
				}
			}
		}
	})
	// --- heartbeat: IHAVE emission (b) and promise penalties (f) ---
	w.afterHeartbeat = append(w.afterHeartbeat, func(hpre, hpost *snapshot) {
		h := hpost.ticks
		for _, i := range w.forder {
			fp := w.fakes[i]
			for _, o := range framesBetween(w, i, hpre, hpost) {
				for _, ih := range o.rpc.GetControl().GetIhave() {
					ids := ih.GetMessageIDs()
					if len(ids) > P.MaxIHaveLength {
						s.violate("C17", "ihave-emit", "C17/emit/ihave-too-long", "heartbeat %d: IHAVE to %s carries %d ids, limit %d", h, fp.name, len(ids), P.MaxIHaveLength)
					}
					why := ""
					switch {
					case hpost.mesh[ih.GetTopicID()][fp.id]:
						why = "mesh member"
					case hpost.direct[fp.id]:
						why = "direct peer"
					case !gs.feature(GossipSubFeatureMesh, hpost.gsPeers[fp.id]):
						why = "not mesh capable"
					case hpost.scores[fp.id] < gs.gossipThreshold:
						why = "below gossip threshold"
					}
					if _, in := hpre.topics[ih.GetTopicID()][fp.id]; !in && why == "" {
						why = "not in topic"
					}
					if why != "" {
						s.violate("C17", "ihave-emit", "C17/emit/ihave-to-wrong-peer/"+firstWord(why), "heartbeat %d: IHAVE sent to %s: %s", h, fp.name, why)
					}
					for _, id := range ids {
						f := forwarded[id]
						if f == nil {
							// forwarded in this very step set? (messages received but never written to any scripted peer
							// are unknown to the wire model) - skip
							continue
						}
						age := h - f.tick // this heartbeat is the age-th after the forward
						if age < 1 || age > uint64(P.HistoryGossip) {
							s.violate("C17", "ihave-emit", "C17/emit/ihave-outside-gossip-window", "heartbeat %d advertises %x which was forwarded %d heartbeats ago (gossip window %d)", h, shortHash([]byte(id)), age, P.HistoryGossip)
						} else {
							s.probe("ihave_id_in_window")
							if age == uint64(P.HistoryGossip) {
								s.probe("id_in_last_advertised_heartbeat")
							}
						}
					}
				}
			}
		}
		// promise penalties: only-if direction. Promises are the IWANTs the router decided to send
		// (SEND_RPC trace, see onRaw below); a promise is kept iff every requested message was handed
		// to the node in time by anybody.
		now := hpost.t
		qfullAt := map[string]time.Duration{}
		w.n.mu.Lock()
		for _, r := range w.n.raw {
			if r.kind == "reject" && r.reason == RejectValidationQueueFull {
				if _, ok := qfullAt[r.mid]; !ok {
					qfullAt[r.mid] = r.t
				}
			}
		}
		w.n.mu.Unlock()
		for _, i := range w.forder {
			fp := w.fakes[i]
			d := hpost.penalty[fp.id] - hpre.penalty[fp.id]
			u, uQueue, uWaiting := 0, 0, 0
			s.mu.Lock()
			prs := append([]*promise(nil), promises...)
			s.mu.Unlock()
			for _, pr := range prs {
				if pr.to != fp.id || pr.counted || pr.expire >= now {
					continue
				}
				pr.counted = true
				broken, queue, waiting := false, false, false
				for _, id := range pr.ids {
					if a, ok := w.sentAt[id]; !ok || a > pr.expire {
						broken = true
						continue
					}
					// on the wire in time. Did the node's own pipeline hold it up?
					if a, ok := arrived[id]; !ok || a > pr.expire {
						if q, ok := qfullAt[id]; ok && q <= pr.expire {
							queue = true // dropped because the validation queue was full: traced, so the router knows
						} else {
							waiting = true // still waiting for a validation worker when the follow-up time ended
						}
					}
				}
				switch {
				case broken:
					u++
				case waiting:
					uWaiting++
				case queue:
					uQueue++
				}
			}
			switch {
			case d <= float64(u)+1e-9:
			case d <= float64(u+uWaiting)+1e-9:
				s.violate("C17", "promise", "C17/promise/penalised-although-arrived/waiting-for-validation", "heartbeat %d raised the behaviour penalty of %s by %v: %d promises are broken, %d more were kept on the wire in time but the message had not begun validation when the follow-up time ended", h, fp.name, d, u, uWaiting)
			case d <= float64(u+uWaiting+uQueue)+1e-9:
				s.violate("C17", "promise", "C17/promise/penalised-although-arrived/dropped-queue-full", "heartbeat %d raised the behaviour penalty of %s by %v: %d promises are broken, %d more were kept but the node dropped the message because its validation queue was full", h, fp.name, d, u, uQueue)
			default:
				s.violate("C17", "promise", "C17/promise/unjustified-penalty", "heartbeat %d raised the behaviour penalty of %s by %v but only %d of its IWANT promises are broken", h, fp.name, d, u)
			}
			if u > 0 && d > 0 {
				s.probe("broken_promise_penalised")
			}
			if u == 0 && d == 0 {
				for _, pr := range promises {
					if pr.to == fp.id && pr.counted {
						s.probe("kept_promise_not_penalised")
						break
					}
				}
			}
		}
	})
	w.atEnd = append(w.atEnd, func() {
		s.nontrivial = nJudged > 0
		s.class = fmt.Sprintf("%x", shortHash([]byte(c13ClassStrAll(w))))
	})
	w.run()
}

func firstWord(s string) string {
	for i := 0; i < len(s); i++ {
		if s[i] == ' ' || s[i] == '(' {
			return s[:i]
		}
	}
	return s
}
