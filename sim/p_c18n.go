package pubsub

// C18, second world — one real node with scripted wire-level peers ("node" world, one run in
// three). The network world (p_net.go) only has correct nodes as remote peers; here the remote
// side is a script: subscriptions re-announced with other flags, announced twice or announced and
// withdrawn inside one RPC, peers that are known through one stream only, blacklisted peers that
// keep talking. Ground truth is the node's topic membership snapshot (the internal topic map read
// at quiescence), as the property's observation points allow; alternation is judged always.

import (
	"fmt"
	"sort"
	"strings"

	pb "github.com/libp2p/go-libp2p-pubsub/pb"
	"github.com/libp2p/go-libp2p/core/peer"
)

func genC18(seed uint64, tier string) *Plan {
	r := newPrng(seed, "c18-world")
	if r.chance(0.67) {
		return genNet(seed, tier, "C18")
	}
	return genC18Node(seed, tier)
}

func genC18Node(seed uint64, tier string) *Plan {
	r := newPrng(seed, "c18n")
	p := &Plan{World: "node", Knobs: map[string]float64{}, SK: map[string]string{}}
	p.SK["router"] = []string{"gossipsub", "gossipsub", "floodsub", "randomsub"}[r.intn(4)]
	p.Knobs["ntopics"] = float64(r.rng(1, 2))
	p.Knobs["hb_ms"] = 1000
	p.Knobs["scoring"] = 0
	p.Knobs["queue_size"] = float64([]int{2, 32}[r.intn(2)])
	genDegrees(r, p, 4)
	nt := p.ki("ntopics", 1)
	add := func(op string, a ...int64) { p.Items = append(p.Items, Item{Op: op, A: a}) }
	if r.chance(0.5) {
		add("node-sub", int64(r.intn(nt)))
	}
	np := r.rng(1, 4)
	nevh := 0
	evh := func() {
		add("evh", int64(r.intn(nt)))
		nevh++
	}
	if r.chance(0.5) {
		evh()
	}
	for i := 0; i < np; i++ {
		genBringUp(r, p, i, nt, 0.7)
		if r.chance(0.3) {
			evh()
		}
	}
	n := r.rng(8, 30)
	if tier == "thorough" {
		n = r.rng(8, 70)
	}
	for k := 0; k < n; k++ {
		i := int64(r.intn(np))
		t := int64(r.intn(nt))
		x := r.intn(100)
		switch {
		case x < 8 || nevh == 0:
			evh()
		case x < 24:
			add("evnext", int64(r.intn(nevh)))
		case x < 28:
			add("evnextcancel", int64(r.intn(nevh)))
		case x < 31:
			add("evpolldead", int64(r.intn(nevh)))
		case x < 34:
			add("evstop", int64(r.intn(nevh)))
		case x < 48:
			// [peer, topic, flags (bit0 requestsPartial, bit1 supportsSendingPartial), shape]
			// shape 0: one subscribe entry; 1: the entry twice; 2: subscribe then unsubscribe in one
			// RPC; 3: unsubscribe then subscribe in one RPC
			add("subx", i, t, int64(r.intn(4)), int64([]int{0, 0, 0, 1, 2, 3}[r.intn(6)]))
		case x < 56:
			add("unsub", i, t)
		case x < 61:
			add("disconnect", i)
		case x < 68:
			add("reconnect", i, int64(r.intn(2)))
			add("identify", i)
			add("adv", 5)
			add("open", i)
			add("subx", i, t, int64(r.intn(4)), 0)
		case x < 72:
			add("reset-in", i)
			add("adv", int64(r.rng(100, 1500)))
		case x < 75:
			add("reset-out", i)
		case x < 78:
			add("open", i)
		case x < 80:
			add("blacklist", i)
		case x < 84:
			add("node-sub", t)
		case x < 87:
			add("node-cancel", int64(r.intn(3)))
		case x < 90:
			add("node-relay", t)
		default:
			add("adv", int64(r.rng(1, 2500)))
		}
	}
	add("adv", int64(r.rng(500, 3000)))
	return p
}

func runC18Node(s *sim) {
	w := newNodeWorld(s)
	if err := w.startNode(); err != nil {
		s.violate("SIM", "setup", "SIM/setup", "node creation failed: %v", err)
		return
	}
	ew := &netWorld{s: s} // event-handler bookkeeping only
	names := func(ids []string) string {
		var out []string
		for _, id := range ids {
			if fp := w.fakeByID(peer.ID(id)); fp != nil {
				out = append(out, fp.name)
			} else {
				out = append(out, shortPeer(peer.ID(id)))
			}
		}
		return "{" + strings.Join(out, ",") + "}"
	}
	evString := func(evs []PeerEvent) string {
		var b strings.Builder
		for i, ev := range evs {
			if i >= 24 {
				b.WriteString(" …")
				break
			}
			if i > 0 {
				b.WriteByte(' ')
			}
			if ev.Type == PeerJoin {
				b.WriteByte('+')
			} else {
				b.WriteByte('-')
			}
			b.WriteString(names([]string{string(ev.Peer)}))
		}
		return b.String()
	}
	w.extraOps["evh"] = func(it Item) {
		topic := w.topicName(it.a(0))
		e := &netEvh{id: len(ew.evhs), topic: topic, created: s.now()}
		c := s.do("EventHandler "+topic, func() any {
			tp, err := w.n.topic(topic)
			if err != nil {
				return err
			}
			h, err := tp.EventHandler()
			if err != nil {
				return err
			}
			e.h = h
			return nil
		})
		if c.isDone(s) && e.h != nil {
			ew.evhs = append(ew.evhs, e)
		}
	}
	w.extraOps["evnext"] = func(it Item) { ew.evhNext(int(it.a(0))) }
	w.extraOps["evnextcancel"] = func(it Item) { ew.evhNextCancel(int(it.a(0))) }
	w.extraOps["evpolldead"] = func(it Item) {
		if nx := ew.evhNextCtx(int(it.a(0)), true); nx != nil {
			s.probe("c18_poll_with_cancelled_context")
		}
	}
	w.extraOps["evstop"] = func(it Item) { ew.evhStop(int(it.a(0))) }
	w.extraOps["subx"] = func(it Item) {
		fp := w.fake(int(it.a(0)))
		if fp == nil || !fp.outAlive() {
			return
		}
		topic := w.topicName(it.a(1))
		yes, no := true, false
		mk := func(sub *bool) *pb.RPC_SubOpts {
			o := &pb.RPC_SubOpts{Topicid: &topic, Subscribe: sub}
			if it.a(2)&1 != 0 {
				o.RequestsPartial = &yes
			}
			if it.a(2)&2 != 0 {
				o.SupportsSendingPartial = &yes
			}
			return o
		}
		var subs []*pb.RPC_SubOpts
		switch it.a(3) {
		case 1:
			subs = []*pb.RPC_SubOpts{mk(&yes), mk(&yes)}
			s.probe("c18_subscribe_twice_in_one_rpc")
		case 2:
			subs = []*pb.RPC_SubOpts{mk(&yes), mk(&no)}
			s.probe("c18_subscribe_and_unsubscribe_in_one_rpc")
		case 3:
			subs = []*pb.RPC_SubOpts{mk(&no), mk(&yes)}
			s.probe("c18_unsubscribe_and_subscribe_in_one_rpc")
		default:
			subs = []*pb.RPC_SubOpts{mk(&yes)}
		}
		if it.a(2) != 0 {
			s.probe("c18_subscription_with_partial_flags")
		}
		fp.send(&pb.RPC{Subscriptions: subs})
	}
	check := func(quiet bool) {
		sn := w.snapshot()
		for _, e := range ew.evhs {
			if quiet && !e.stopped {
				ew.evhDrain(e)
			}
			e.mu.Lock()
			evs := append([]PeerEvent(nil), e.events...)
			e.mu.Unlock()
			set := map[peer.ID]bool{}
			bad := false
			for k, ev := range evs {
				switch ev.Type {
				case PeerJoin:
					if set[ev.Peer] {
						s.violate("C18", "alternation", "C18/alternation/join-join", "handler h%d (%s): event %d is a second PeerJoin for %s without a PeerLeave in between; events=%s", e.id, e.topic, k, names([]string{string(ev.Peer)}), evString(evs))
						bad = true
					}
					set[ev.Peer] = true
				case PeerLeave:
					if !set[ev.Peer] {
						s.violate("C18", "alternation", "C18/alternation/leave-without-join", "handler h%d (%s): event %d is a PeerLeave for %s which is not joined; events=%s", e.id, e.topic, k, names([]string{string(ev.Peer)}), evString(evs))
						bad = true
					}
					delete(set, ev.Peer)
				default:
					s.violate("C18", "alternation", "C18/unknown-event-type", "handler h%d: event type %d", e.id, ev.Type)
					bad = true
				}
				if bad {
					break
				}
			}
			if bad || !quiet || e.stopped {
				continue
			}
			s.nontrivial = true
			s.probe("c18_handler_checked")
			if len(evs) > 0 {
				s.probe("c18_handler_with_events")
			}
			var got, have []string
			for p := range set {
				got = append(got, string(p))
			}
			for p := range sn.topics[e.topic] {
				have = append(have, string(p))
				if !sn.psPeers[p] {
					s.probe("c18_member_without_outbound_queue")
				}
			}
			sort.Strings(got)
			sort.Strings(have)
			if strings.Join(got, "|") != strings.Join(have, "|") {
				s.violate("C18", "reproduces-peer-set", "C18/set-mismatch", "handler h%d (%s), drained at a quiet point: replaying its %d events gives %s but the topic's members are %s; events=%s", e.id, e.topic, len(evs), names(got), names(have), evString(evs))
			}
		}
	}
	w.afterItem = append(w.afterItem, func(it Item) { check(false) })
	w.atEnd = append(w.atEnd, func() {
		for _, fp := range w.allFakes() {
			fp.stall(false)
		}
		s.advance(6 * 1000 * 1000 * 1000)
		s.settle()
		check(true)
		ew.cancelAllNext()
		var ks []string
		for _, e := range ew.evhs {
			e.mu.Lock()
			ks = append(ks, fmt.Sprintf("%s:%d", e.topic, len(e.events)))
			e.mu.Unlock()
		}
		s.class = fmt.Sprintf("node/%s/%x", w.n.router, shortHash([]byte(fmt.Sprint(ks)+c13ClassStrAll(w))))
	})
	w.run()
	ew.cancelAllNext()
}
