package pubsub

// W-QUEUE: rpcQueue alone. Operations are simulated client tasks started one per scheduler
// step; the only lock-free race (cancel between Pop's context check and its wait) is forced
// through the verifYield hook. Safety: porcupine linearizability against a sequential model.
// Progress: at every quiescence no operation is blocked that the queue state allows to finish.

import (
	"context"
	"fmt"
	"runtime"
	"sort"
	"sync/atomic"
	"time"

	"github.com/libp2p/go-libp2p-pubsub/internal/porcupine"
)

func init() {
	registerPropPost("C15", genC15, map[string]func(*sim){"queue": runQueue}, postC15)
}

func registerPropPost(id string, gen func(uint64, string) *Plan, worlds map[string]func(*sim), post func(*RunResult, map[string]any)) {
	registerProp(id, gen, worlds)
	propDefs[id].post = post
}

func genC15(seed uint64, tier string) *Plan {
	r := newPrng(seed, "c15")
	p := &Plan{World: "queue", Knobs: map[string]float64{}}
	capn := r.rng(1, 3)
	p.Knobs["cap"] = float64(capn)
	n := r.rng(3, 14)
	if tier == "thorough" {
		n = r.rng(3, 40)
	}
	if r.chance(0.35) {
		n = r.rng(2, 6) // many very short histories: saturate the short space
	}
	wPush, wPop, wCancel, wClose := 4+r.intn(5), 3+r.intn(5), 1+r.intn(3), r.intn(2)
	popIDs := []int64{}
	val := int64(0)
	for i := 0; i < n; i++ {
		if r.chance(0.18) {
			// compound item: 2..3 non-blocking operations issued back to back by one client task, so
			// that they all take effect before any waiter woken by the first of them runs again
			k := r.rng(2, 3)
			it := Item{Op: "seq"}
			for j := 0; j < k; j++ {
				switch y := r.intn(10); {
				case y < 4:
					val++
					it.S = append(it.S, "pushnb")
					it.A = append(it.A, int64(r.intn(2)), val)
				case y < 8:
					it.S = append(it.S, "popnb")
					it.A = append(it.A, 0, 0)
				case y < 9 && len(popIDs) > 0:
					it.S = append(it.S, "cancel")
					it.A = append(it.A, popIDs[r.intn(len(popIDs))], 0)
				default:
					if r.chance(0.3) {
						it.S = append(it.S, "close")
					} else {
						val++
						it.S = append(it.S, "pushnb")
						it.A = append(it.A[:len(it.A):len(it.A)], int64(r.intn(2)), val)
						continue
					}
					it.A = append(it.A, 0, 0)
				}
			}
			p.Items = append(p.Items, it)
			continue
		}
		x := r.intn(wPush + wPop + wCancel + wClose)
		switch {
		case x < wPush:
			val++
			p.Items = append(p.Items, Item{Op: "push", A: []int64{int64(r.intn(2)), int64(b2i(r.chance(0.35))), val}})
		case x < wPush+wPop:
			id := int64(len(popIDs))
			popIDs = append(popIDs, id)
			// mode: 0 plain, 1 cancel inside the window between context check and wait
			// mode 2: the context ends by a deadline instead of an explicit cancel (the "cancel" of
			// such a pop is virtual time passing its deadline)
			mode := int64(0)
			switch y := r.intn(10); {
			case y < 3:
				mode = 1
			case y < 5:
				mode = 2
			}
			p.Items = append(p.Items, Item{Op: "pop", A: []int64{id, mode}})
		case x < wPush+wPop+wCancel:
			if len(popIDs) == 0 {
				i--
				wCancel = 0
				if wPush+wPop+wClose == 0 {
					wPush = 1
				}
				continue
			}
			p.Items = append(p.Items, Item{Op: "cancel", A: []int64{popIDs[r.intn(len(popIDs))]}})
		default:
			p.Items = append(p.Items, Item{Op: "close"})
		}
	}
	return p
}

func b2i(b bool) int {
	if b {
		return 1
	}
	return 0
}

type qop struct {
	idx      int
	kind     string // push pop cancel close
	urgent   bool
	block    bool
	val      int64
	popID    int64
	call     int64
	ret      int64
	done     atomic.Bool
	out      string // ok full closed cancelled panic-closed val
	outVal   int64
	cancel   context.CancelFunc
	ctx      context.Context
	started  bool
	deadline bool // the context ends by a deadline
}

type qHistOp struct {
	Kind   string `json:"k"`
	Urgent bool   `json:"u,omitempty"`
	Block  bool   `json:"b,omitempty"`
	Val    int64  `json:"v,omitempty"`
	PopID  int64  `json:"p,omitempty"`
	Call   int64  `json:"c"`
	Ret    int64  `json:"r"`
	Out    string `json:"o"`
	OutVal int64  `json:"ov,omitempty"`
}

func runQueue(s *sim) {
	plan := s.plan
	capn := plan.ki("cap", 1)
	// one P: operations issued back to back by one task are not interleaved with goroutines they wake
	defer runtime.GOMAXPROCS(runtime.GOMAXPROCS(1))
	q := newRpcQueue(capn)
	var stamp int64
	next := func() int64 { stamp++; return stamp }
	var ops []*qop
	pops := map[int64]*qop{}
	vals := map[*RPC]int64{}
	var hist []qHistOp
	var windowPop atomic.Pointer[qop] // the pop whose window cancel is armed
	var bcastDone atomic.Int32
	cancelled := map[int64]bool{}
	lenAtClose := -1 // queue length measured by the closing task right after Close returned
	closeAndMeasure := func() {
		q.Close()
		q.queueMu.Lock()
		if lenAtClose < 0 {
			lenAtClose = q.queue.Len()
		}
		q.queueMu.Unlock()
	}

	verifYieldFn = func(point int) {
		switch point {
		case verifPopBeforeWait:
			op := windowPop.Swap(nil)
			if op == nil {
				return
			}
			// cancel right here, inside the window, holding the queue mutex as Pop does
			bcastDone.Store(0)
			op.cancel()
			// give the AfterFunc goroutine a bounded chance to run; never wait for it (it must be
			// allowed to block on the mutex we hold in a corrected queue)
			for i := 0; i < 20000 && bcastDone.Load() == 0; i++ {
				runtime.Gosched()
			}
		case verifPopCancelBroadcastDone:
			bcastDone.Store(1)
		}
	}
	defer func() { verifYieldFn = nil }()

	record := func(op *qop) {
		hist = append(hist, qHistOp{op.kind, op.urgent, op.block, op.val, op.popID, op.call, op.ret, op.out, op.outVal})
	}
	// observe returns at quiescence and run progress oracle
	observe := func() {
		s.settle()
		for _, op := range ops {
			if op.started && op.ret == 0 && op.done.Load() {
				op.ret = next()
				record(op)
				s.logf("QRET %d %s -> %s %d", op.idx, op.kind, op.out, op.outVal)
			}
		}
		// progress at quiescence (state read under the queue's own lock; nobody else runs)
		q.queueMu.Lock()
		ln, closed := q.queue.Len(), q.closed
		q.queueMu.Unlock()
		if ln > capn {
			s.violate("C15", "capacity", "C15/capacity", "queue holds %d > capacity %d", ln, capn)
		}
		if lenAtClose >= 0 && ln > lenAtClose {
			s.violate("C15", "closed", "C15/push-accepted-after-close", "queue held %d RPCs when Close returned and holds %d now: a push was accepted by a closed queue", lenAtClose, ln)
		}
		for _, op := range ops {
			if !op.started || op.ret != 0 {
				continue
			}
			switch op.kind {
			case "pop":
				why := ""
				switch {
				case closed:
					why = "queue-closed"
				case ln > 0:
					why = "data-available"
				case cancelled[op.popID]:
					why = "context-cancelled"
				}
				if why != "" {
					s.violate("C15", "progress", "C15/progress/pop-stuck/"+why,
						"pop #%d still blocked at quiescence although %s (len=%d closed=%v cancelled=%v)", op.popID, why, ln, closed, cancelled[op.popID])
				}
			case "push":
				if closed || ln < capn {
					s.violate("C15", "progress", "C15/progress/push-stuck", "blocking push still blocked at quiescence (len=%d cap=%d closed=%v)", ln, capn, closed)
				}
			}
		}
	}

	for i, it := range plan.Items {
		if len(s.viol) > 0 {
			break
		}
		op := &qop{idx: i, kind: it.Op}
		ops = append(ops, op)
		s.steps++
		switch it.Op {
		case "push":
			op.urgent, op.block, op.val = it.a(0) != 0, it.a(1) != 0, it.a(2)
			rpc := &RPC{}
			vals[rpc] = op.val
			op.call = next()
			op.started = true
			s.logf("QCALL %d push u=%v b=%v v=%d", i, op.urgent, op.block, op.val)
			go func() {
				defer func() {
					if r := recover(); r != nil {
						if r == ErrQueuePushOnClosed {
							op.out = "panic-closed"
						} else {
							op.out = fmt.Sprint("panic:", r)
						}
						op.done.Store(true)
					}
				}()
				var err error
				if op.urgent {
					err = q.UrgentPush(rpc, op.block)
				} else {
					err = q.Push(rpc, op.block)
				}
				switch err {
				case nil:
					op.out = "ok"
				case ErrQueueFull:
					op.out = "full"
				default:
					op.out = "err:" + err.Error()
				}
				op.done.Store(true)
			}()
		case "pop":
			op.popID = it.a(0)
			if _, dup := pops[op.popID]; dup {
				continue
			}
			pops[op.popID] = op
			op.ctx, op.cancel = context.WithCancel(context.Background())
			if it.a(1) == 2 {
				op.ctx, op.cancel = context.WithDeadline(context.Background(), time.Now().Add(time.Duration(1+len(pops))*time.Hour))
				op.deadline = true
				s.probe("pop_with_deadline_context")
			}
			op.call = next()
			op.started = true
			window := it.a(1) == 1
			s.logf("QCALL %d pop id=%d window=%v", i, op.popID, window)
			if window {
				// The cancel lands inside the window only if this Pop reaches its wait; record the
				// cancel as an operation concurrent with the pop.
				windowPop.Store(op)
			}
			go func() {
				rpc, err := q.Pop(op.ctx)
				switch err {
				case nil:
					op.out = "val"
					op.outVal = vals[rpc]
				case ErrQueueClosed:
					op.out = "closed"
				case ErrQueueCancelled:
					op.out = "cancelled"
				default:
					op.out = "err:" + err.Error()
				}
				op.done.Store(true)
			}()
			if window {
				synctestWait()
				if windowPop.Swap(nil) == nil {
					// hook fired: the cancel happened inside the window
					cancelled[op.popID] = true
					c := &qop{idx: i, kind: "cancel", popID: op.popID, call: next(), started: true}
					c.ret = next()
					c.out = "ok"
					ops = append(ops, c)
					record(c)
					s.probe("cancel_in_window")
					s.logf("QWINDOW cancel pop id=%d", op.popID)
				}
			}
		case "seq":
			// sub-operations run in one goroutine without yielding in between
			type sub struct {
				op   *qop
				kind string
			}
			var subs []sub
			for j, k := range it.S {
				a0, a1 := it.a(2*j), it.a(2*j+1)
				so := &qop{idx: i, started: true}
				switch k {
				case "pushnb":
					so.kind, so.urgent, so.val = "push", a0 != 0, a1
				case "popnb":
					so.kind = "pop"
					so.popID = -1 - int64(len(ops)) - int64(j)
				case "cancel":
					if pops[a0] == nil {
						continue
					}
					so.kind, so.popID = "cancel", a0
				case "close":
					so.kind = "close"
				default:
					continue
				}
				subs = append(subs, sub{so, k})
			}
			op.started = false
			s.logf("QCALL %d seq %v %v", i, it.S, it.A)
			if len(subs) > 1 {
				s.probe("compound_item")
			}
			done := make(chan struct{})
			dead, deadCancel := context.WithCancel(context.Background())
			deadCancel()
			go func() {
				defer close(done)
				for _, sb := range subs {
					so := sb.op
					so.call = next()
					switch sb.kind {
					case "pushnb":
						rpc := &RPC{}
						vals[rpc] = so.val
						func() {
							defer func() {
								if r := recover(); r != nil {
									so.out = "panic-closed"
								}
							}()
							var err error
							if so.urgent {
								err = q.UrgentPush(rpc, false)
							} else {
								err = q.Push(rpc, false)
							}
							if err == nil {
								so.out = "ok"
							} else if err == ErrQueueFull {
								so.out = "full"
							} else {
								so.out = "err:" + err.Error()
							}
						}()
					case "popnb":
						rpc, err := q.Pop(dead) // context already cancelled: returns at once
						switch err {
						case nil:
							so.out, so.outVal = "val", vals[rpc]
						case ErrQueueClosed:
							so.out = "closed"
						case ErrQueueCancelled:
							so.out = "cancelled"
						default:
							so.out = "err:" + err.Error()
						}
					case "cancel":
						pops[so.popID].cancel()
						so.out = "ok"
					case "close":
						closeAndMeasure()
						so.out = "ok"
					}
					so.ret = next()
				}
			}()
			synctestWait()
			select {
			case <-done:
			default:
				s.violate("C15", "progress", "C15/progress/nonblocking-op-blocked", "a non-blocking operation of a compound item did not return")
			}
			for _, sb := range subs {
				so := sb.op
				if so.ret == 0 {
					continue
				}
				if sb.kind == "popnb" {
					cancelled[so.popID] = true
					// its context was cancelled before the call: record that as an operation
					c := &qop{kind: "cancel", popID: so.popID, call: so.call - 0, ret: so.call}
					_ = c
				}
				if sb.kind == "cancel" {
					cancelled[so.popID] = true
				}
				ops = append(ops, so)
				so.done.Store(true)
				record(so)
			}
		case "cancel":
			p := pops[it.a(0)]
			if p == nil {
				continue
			}
			op.popID = p.popID
			op.call = next()
			op.started = true
			if p.ret == 0 {
				s.probe("cancel_while_waiting")
			}
			if p.deadline {
				// let virtual time pass this pop's deadline; deadline pops created before it expire on
				// the way: each of those expiries is an operation of the history too
				target := deadlineOf(p.ctx)
				var extra []*qop
				var ids []int64
				for id, o := range pops {
					if o != p && o.deadline && !cancelled[id] && !deadlineOf(o.ctx).After(target) {
						ids = append(ids, id)
					}
				}
				sort.Slice(ids, func(a, b int) bool { return ids[a] < ids[b] })
				for _, id := range ids {
					extra = append(extra, &qop{idx: i, kind: "cancel", popID: id, call: next(), started: true})
				}
				if d := time.Until(target); d > 0 {
					time.Sleep(d + time.Second)
				}
				synctestWait()
				for _, so := range extra {
					cancelled[so.popID] = true
					so.out = "ok"
					so.ret = next()
					ops = append(ops, so)
					so.done.Store(true)
					record(so)
				}
				s.probe("deadline_passed_while_pop_waits")
			} else {
				p.cancel()
			}
			cancelled[p.popID] = true
			op.out = "ok"
			op.ret = next()
			record(op)
			s.logf("QCALL %d cancel id=%d", i, p.popID)
		case "close":
			op.call = next()
			op.started = true
			nb := 0
			for _, o := range ops {
				if o.started && o.ret == 0 && o != op {
					nb++
				}
			}
			if nb > 0 {
				s.probe("close_with_blocked_ops")
			}
			closeAndMeasure()
			op.out = "ok"
			op.ret = next()
			record(op)
			s.logf("QCALL %d close", i)
		}
		observe()
		// let any timers (there are none in the queue) settle: no time passes in this world
	}
	// end of run: unblock everything so that the bubble can end
	blockedAtEnd := 0
	for _, op := range ops {
		if op.started && op.ret == 0 {
			blockedAtEnd++
		}
	}
	q.Close()
	for _, p := range pops {
		p.cancel()
	}
	synctestWait()
	// pops that lost their wake-up stay parked even after Close? (Close broadcasts under the lock, so no.)
	s.post = map[string]any{"hist": hist, "cap": capn}
	s.nontrivial = len(hist) >= 2
	s.class = histClass(hist, capn)
	s.sample = map[string]any{"cap": capn, "history": hist, "blocked_at_end": blockedAtEnd}
	_ = time.Now
}

func histClass(h []qHistOp, capn int) string {
	b := []byte(fmt.Sprintf("c%d:", capn))
	for _, o := range h {
		c := byte('?')
		switch o.Kind {
		case "push":
			c = 'p'
			if o.Urgent {
				c = 'u'
			}
			if o.Block {
				c -= 32
			}
		case "pop":
			c = 'o'
		case "cancel":
			c = 'x'
		case "close":
			c = 'c'
		}
		b = append(b, c)
		switch o.Out {
		case "ok", "val":
		case "full":
			b = append(b, 'f')
		case "closed", "panic-closed":
			b = append(b, 'k')
		case "cancelled":
			b = append(b, 'n')
		}
	}
	return string(b)
}

// --- sequential reference model for porcupine -------------------------------------------------

type qState struct {
	urgent, normal []int64
	closed         bool
	cancelled      map[int64]bool
	cap            int
}

func (st qState) clone() qState {
	n := qState{closed: st.closed, cap: st.cap, cancelled: map[int64]bool{}}
	n.urgent = append([]int64(nil), st.urgent...)
	n.normal = append([]int64(nil), st.normal...)
	for k := range st.cancelled {
		n.cancelled[k] = true
	}
	return n
}

func qModel(capn int) porcupine.Model {
	return porcupine.Model{
		Init: func() interface{} { return qState{cap: capn, cancelled: map[int64]bool{}} },
		Step: func(state, input, output interface{}) (bool, interface{}) {
			st := state.(qState)
			op := input.(qHistOp)
			switch op.Kind {
			case "push":
				if st.closed {
					return op.Out == "panic-closed", st
				}
				full := len(st.urgent)+len(st.normal) >= st.cap
				if full {
					if op.Block {
						return false, st // a blocking push cannot complete on a full open queue
					}
					return op.Out == "full", st
				}
				if op.Out != "ok" {
					return false, st
				}
				n := st.clone()
				if op.Urgent {
					n.urgent = append(n.urgent, op.Val)
				} else {
					n.normal = append(n.normal, op.Val)
				}
				return true, n
			case "pop":
				switch op.Out {
				case "closed":
					return st.closed, st
				case "cancelled":
					return (st.cancelled[op.PopID] || op.PopID < 0) && len(st.urgent)+len(st.normal) == 0 && !st.closed, st
				case "val":
					if st.closed {
						return false, st
					}
					n := st.clone()
					if len(n.urgent) > 0 {
						if n.urgent[0] != op.OutVal {
							return false, st
						}
						n.urgent = n.urgent[1:]
						return true, n
					}
					if len(n.normal) > 0 {
						if n.normal[0] != op.OutVal {
							return false, st
						}
						n.normal = n.normal[1:]
						return true, n
					}
					return false, st
				}
				return false, st
			case "cancel":
				n := st.clone()
				n.cancelled[op.PopID] = true
				return true, n
			case "close":
				n := st.clone()
				n.closed = true
				return true, n
			}
			return false, st
		},
		Equal: func(a, b interface{}) bool {
			x, y := a.(qState), b.(qState)
			if x.closed != y.closed || len(x.urgent) != len(y.urgent) || len(x.normal) != len(y.normal) || len(x.cancelled) != len(y.cancelled) {
				return false
			}
			for i := range x.urgent {
				if x.urgent[i] != y.urgent[i] {
					return false
				}
			}
			for i := range x.normal {
				if x.normal[i] != y.normal[i] {
					return false
				}
			}
			for k := range x.cancelled {
				if !y.cancelled[k] {
					return false
				}
			}
			return true
		},
		DescribeOperation: func(input, output interface{}) string { return fmt.Sprintf("%+v", input) },
	}
}

func postC15(res *RunResult, post map[string]any) {
	if post == nil {
		return
	}
	hist := post["hist"].([]qHistOp)
	capn := post["cap"].(int)
	var ops []porcupine.Operation
	for i, h := range hist {
		ops = append(ops, porcupine.Operation{ClientId: i, Input: h, Call: h.Call, Output: h, Return: h.Ret})
	}
	if len(ops) == 0 {
		return
	}
	r := porcupine.CheckOperationsTimeout(qModel(capn), ops, 20*time.Second)
	if res.Probes == nil {
		res.Probes = map[string]int{}
	}
	switch r {
	case porcupine.Ok:
		res.Probes["porcupine_ok"]++
	case porcupine.Unknown:
		res.Probes["porcupine_inconclusive"]++
	case porcupine.Illegal:
		res.Violations = append(res.Violations, Violation{Property: "C15", Invariant: "linearizable",
			Signature: "C15/linearizability", Detail: fmt.Sprintf("history not linearizable against the bounded two-class FIFO model (cap=%d): %+v", capn, hist)})
	}
}

func deadlineOf(ctx context.Context) time.Time {
	d, _ := ctx.Deadline()
	return d
}
