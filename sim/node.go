package pubsub

// A real PubSub instance on a simulated host, with simulator-owned application callbacks.

import (
	"context"
	"fmt"
	"log/slog"
	"sort"
	"sync"
	"time"

	pb "github.com/libp2p/go-libp2p-pubsub/pb"
	"github.com/libp2p/go-libp2p/core/crypto"
	"github.com/libp2p/go-libp2p/core/peer"
	"github.com/libp2p/go-libp2p/core/protocol"
)

var discardLogger = slog.New(slog.DiscardHandler)

type traceRec struct {
	t    time.Duration
	step int
	ev   *pb.TraceEvent
}

type rawRec struct {
	t      time.Duration
	kind   string
	p      peer.ID
	topic  string
	mid    string
	from   peer.ID // ReceivedFrom
	reason string
	rpc    *RPC
	canon  []string // canonical content, computed at trace time (only when the node asks for it)
	size   int
	inSend bool // traced from inside GossipSubRouter.sendRPC
	qfull  bool // (drop records) the peer's outbound queue was full or gone when the drop was traced
}

type simSub struct {
	n              *simNode
	id             int
	topic          string
	sub            *Subscription
	ctx            context.Context
	cancel         context.CancelFunc
	mu             sync.Mutex
	got            []*Message
	gotAt          []time.Duration
	endErr         error
	ended          bool
	created        time.Duration
	cancAt         time.Duration
	canc           bool
	lazy           bool // the consumer task starts only after the subscription was cancelled
	bufCap         int
	rawFrom, rawTo int // raw-trace marks of the subscription's lifetime
	checkedCancel  bool
}

type simNode struct {
	s      *sim
	h      *simHost
	name   string
	router string
	ps     *PubSub
	ctx    context.Context
	cancel context.CancelFunc

	mu     sync.Mutex
	trace  []traceRec
	raw    []rawRec
	topics map[string]*Topic
	subs   []*simSub
	relays map[string][]RelayCancelFunc

	topicOpts func(name string) []TopicOpt
	canonRPC  bool
	onWire    func(fp *fakePeer, o *wireObs)
	onRaw     func(r *rawRec)
	created   time.Duration
	hbFirst   time.Duration // virtual instant of the first heartbeat (gossipsub)
	hbEvery   time.Duration
}

func genKey(r *prng, typ int) crypto.PrivKey {
	var priv crypto.PrivKey
	var err error
	switch typ {
	case 1:
		// the library's generator deliberately consumes a random number of bytes; build the key
		// from 32 seeded bytes instead
		b := r.bytes(32)
		b[0] &= 0x7f
		b[31] |= 1
		priv, err = crypto.UnmarshalSecp256k1PrivateKey(b)
	default:
		priv, _, err = crypto.GenerateEd25519Key(r)
	}
	if err != nil {
		panic(err)
	}
	return priv
}

// memTracer implements EventTracer
type memTracer struct{ n *simNode }

func (m memTracer) Trace(evt *pb.TraceEvent) {
	n := m.n
	n.mu.Lock()
	n.trace = append(n.trace, traceRec{t: n.s.now(), ev: evt})
	n.mu.Unlock()
	n.s.poke()
}

// rawTap implements RawTracer
type rawTap struct{ n *simNode }

func (r rawTap) add(rec rawRec) {
	n := r.n
	rec.t = n.s.now()
	n.mu.Lock()
	n.raw = append(n.raw, rec)
	cb := n.onRaw
	n.mu.Unlock()
	if cb != nil {
		cb(&rec)
	}
	n.s.poke()
}
func (r rawTap) mid(msg *Message) string { return r.n.ps.idGen.ID(msg) }
func (r rawTap) OnNewOutboundStream(p peer.ID, proto protocol.ID) {
	r.add(rawRec{kind: "newout", p: p, topic: string(proto)})
}
func (r rawTap) OnClosedOutboundStream(p peer.ID) { r.add(rawRec{kind: "closedout", p: p}) }
func (r rawTap) Join(topic string)                { r.add(rawRec{kind: "join", topic: topic}) }
func (r rawTap) Leave(topic string)               { r.add(rawRec{kind: "leave", topic: topic}) }
func (r rawTap) Graft(p peer.ID, topic string)    { r.add(rawRec{kind: "graft", p: p, topic: topic}) }
func (r rawTap) Prune(p peer.ID, topic string)    { r.add(rawRec{kind: "prune", p: p, topic: topic}) }
func (r rawTap) ValidateMessage(msg *Message) {
	r.add(rawRec{kind: "validate", mid: r.mid(msg), from: msg.ReceivedFrom, topic: msg.GetTopic()})
}
func (r rawTap) DeliverMessage(msg *Message) {
	r.add(rawRec{kind: "deliver", mid: r.mid(msg), from: msg.ReceivedFrom, topic: msg.GetTopic()})
}
func (r rawTap) RejectMessage(msg *Message, reason string) {
	r.add(rawRec{kind: "reject", mid: r.mid(msg), from: msg.ReceivedFrom, topic: msg.GetTopic(), reason: reason})
}
func (r rawTap) DuplicateMessage(msg *Message) {
	r.add(rawRec{kind: "duplicate", mid: r.mid(msg), from: msg.ReceivedFrom, topic: msg.GetTopic()})
}
func (r rawTap) ThrottlePeer(p peer.ID) { r.add(rawRec{kind: "throttle", p: p}) }
func (r rawTap) RecvRPC(rpc *RPC)       { r.add(rawRec{kind: "recv", p: rpc.from, rpc: rpc}) }
func (r rawTap) SendRPC(rpc *RPC, p peer.ID) {
	rec := rawRec{kind: "send", p: p, rpc: rpc}
	if r.n.canonRPC {
		rec.canon, rec.size, rec.inSend = canonRPC(&rpc.RPC), rpc.Size(), stackHas("GossipSubRouter).sendRPC")
	}
	r.add(rec)
}
func (r rawTap) DropRPC(rpc *RPC, p peer.ID) {
	rec := rawRec{kind: "drop", p: p, rpc: rpc}
	if r.n.canonRPC {
		rec.canon, rec.size, rec.inSend = canonRPC(&rpc.RPC), rpc.Size(), stackHas("GossipSubRouter).sendRPC")
		// traced on the event-loop goroutine, which owns the peers map
		rec.qfull = true
		if q := r.n.ps.peers[p]; q != nil {
			q.queueMu.Lock()
			rec.qfull = q.closed || q.queue.Len() >= q.maxSize
			q.queueMu.Unlock()
		}
	}
	r.add(rec)
}
func (r rawTap) UndeliverableMessage(msg *Message) {
	r.add(rawRec{kind: "undeliverable", mid: r.mid(msg), topic: msg.GetTopic()})
}

type nodeCfg struct {
	router         string // gossipsub floodsub randomsub
	opts           []Option
	rsize          int // randomsub size
	ip             string
	keyType        int
	noTracer       bool
	tee            func(mem EventTracer) EventTracer
	afterHostStart func(h *simHost) // e.g. extra identities for the peerstore
}

// nodeOffset returns the sub-microsecond residue reserved for periodic timers of node idx.
func nodeOffset(idx int) time.Duration { return time.Duration(29 * (idx + 1)) }

// newNode creates a real pubsub instance. Nodes are created at instants with a node-specific
// sub-microsecond residue so that periodic timers of different nodes never share an instant.
func (s *sim) newNode(name string, priv crypto.PrivKey, cfg nodeCfg) (*simNode, error) {
	idx := len(s.hosts)
	// move to an instant with residue nodeOffset(idx)
	now := s.now()
	target := now - now%1000 + nodeOffset(idx)
	if target <= now {
		target += 1000
	}
	time.Sleep(target - now)
	ip := cfg.ip
	if ip == "" {
		ip = fmt.Sprintf("10.0.%d.%d", idx/250, 1+idx%250)
	}
	h := s.newHost(name, priv, ip)
	h.start()
	if cfg.afterHostStart != nil {
		cfg.afterHostStart(h)
	}
	n := &simNode{s: s, h: h, name: name, router: cfg.router, topics: map[string]*Topic{}, relays: map[string][]RelayCancelFunc{}, created: s.now()}
	n.ctx, n.cancel = context.WithCancel(context.Background())
	opts := []Option{WithLogger(discardLogger), WithRPCLogger(discardLogger)}
	if !cfg.noTracer {
		var et EventTracer = memTracer{n}
		if cfg.tee != nil {
			et = cfg.tee(et)
		}
		opts = append(opts, WithEventTracer(et), WithRawTracer(rawTap{n}))
	}
	opts = append(opts, cfg.opts...)
	var err error
	switch cfg.router {
	case "floodsub":
		n.ps, err = NewFloodSub(n.ctx, h, opts...)
	case "randomsub":
		sz := cfg.rsize
		if sz <= 0 {
			sz = 6
		}
		n.ps, err = NewRandomSub(n.ctx, h, sz, opts...)
	default:
		n.ps, err = NewGossipSub(n.ctx, h, opts...)
	}
	if err != nil {
		n.cancel()
		h.stop()
		return nil, err
	}
	if gs, ok := n.ps.rt.(*GossipSubRouter); ok {
		n.hbFirst = n.created + gs.params.HeartbeatInitialDelay
		n.hbEvery = gs.params.HeartbeatInterval
	}
	s.nodes = append(s.nodes, n)
	s.logf("NODE %s router=%s id=%s", name, cfg.router, shortPeer(h.id))
	return n, nil
}

func (n *simNode) gs() *GossipSubRouter {
	gs, _ := n.ps.rt.(*GossipSubRouter)
	return gs
}

// shutdown cancels the node's context and lets its goroutines drain.
func (n *simNode) shutdown() {
	n.cancel()
}

func (n *simNode) topic(name string) (*Topic, error) {
	n.mu.Lock()
	t := n.topics[name]
	n.mu.Unlock()
	if t != nil {
		return t, nil
	}
	var topts []TopicOpt
	if n.topicOpts != nil {
		topts = n.topicOpts(name)
	}
	t, err := n.ps.Join(name, topts...)
	if err != nil {
		return nil, err
	}
	n.mu.Lock()
	n.topics[name] = t
	n.mu.Unlock()
	return t, nil
}

// subscribe (runs as a client task body): creates a subscription and a consumer task.
func (n *simNode) subscribe(topic string, bufSize int) (*simSub, error) {
	return n.subscribeMode(topic, bufSize, false)
}

func (ss *simSub) startConsumer() { go ss.consume() }

func (n *simNode) subscribeMode(topic string, bufSize int, lazy bool) (*simSub, error) {
	t, err := n.topic(topic)
	if err != nil {
		return nil, err
	}
	var opts []SubOpt
	if bufSize > 0 {
		opts = append(opts, WithBufferSize(bufSize))
	}
	sub, err := t.Subscribe(opts...)
	if err != nil {
		return nil, err
	}
	ss := &simSub{n: n, topic: topic, sub: sub, created: n.s.now(), lazy: lazy, bufCap: cap(sub.ch)}
	n.mu.Lock()
	ss.rawFrom = len(n.trace)
	n.mu.Unlock()
	ss.ctx, ss.cancel = context.WithCancel(context.Background())
	n.mu.Lock()
	ss.id = len(n.subs)
	n.subs = append(n.subs, ss)
	n.mu.Unlock()
	if !lazy {
		go ss.consume()
	}
	return ss, nil
}

func (ss *simSub) consume() {
	for {
		m, err := ss.sub.Next(ss.ctx)
		ss.mu.Lock()
		if err != nil {
			ss.endErr = err
			ss.ended = true
			ss.mu.Unlock()
			ss.n.s.poke()
			return
		}
		ss.got = append(ss.got, m)
		ss.gotAt = append(ss.gotAt, ss.n.s.now())
		ss.mu.Unlock()
		ss.n.s.note("deliver %s sub%d %x", ss.n.name, ss.id, shortHash([]byte(ss.n.ps.idGen.ID(m))))
	}
}

func (ss *simSub) messages() []*Message {
	ss.mu.Lock()
	defer ss.mu.Unlock()
	return append([]*Message(nil), ss.got...)
}

// ---------------------------------------------------------------------------------------------
// whole-run cleanup: after this every goroutine of the bubble must be able to exit

func (s *sim) teardown() {
	for _, n := range s.nodes {
		n.cancel()
	}
	s.releaseWriters()
	synctestWait() // callbacks that watch the context have gone before the others are released
	// release parked application callbacks
	for _, g := range s.parkedGates() {
		s.release(g, -1)
	}
	synctestWait()
	for _, n := range s.nodes {
		n.mu.Lock()
		subs := append([]*simSub(nil), n.subs...)
		n.mu.Unlock()
		for _, ss := range subs {
			ss.cancel()
		}
	}
	// kill all streams and connections
	for _, h := range s.hosts {
		h.mu.Lock()
		var cs []*simConn
		for _, l := range h.conns {
			cs = append(cs, l...)
		}
		h.mu.Unlock()
		sort.Slice(cs, func(i, j int) bool { return cs[i].id < cs[j].id })
		for _, c := range cs {
			for _, st := range c.snapshotStreams() {
				st.killEnd(errSimRefused)
				if st.peer != nil {
					st.peer.killEnd(errSimRefused)
				}
			}
		}
	}
	// pending stream opens
	s.mu.Lock()
	reqs := s.openReqs
	s.openReqs = nil
	s.mu.Unlock()
	for _, r := range reqs {
		r.resp <- openResp{nil, errSimRefused}
	}
	synctestWait()
	// drop pending events (stream opens in flight must still be answered)
	for len(s.evq) > 0 {
		e := s.evq[0]
		s.evq = s.evq[1:]
		if len(e.tag) > 13 && (e.tag[:13] == "open-complete" || e.writer) {
			e.run()
		}
	}
	s.evq = nil
	synctestWait()
	s.mu.Lock()
	reqs = s.openReqs
	s.openReqs = nil
	s.mu.Unlock()
	for _, r := range reqs {
		r.resp <- openResp{nil, errSimRefused}
	}
	for _, h := range s.hosts {
		if !h.fake {
			h.stop()
		}
	}
	synctestWait()
}

// stateSummary (debugging aid, read at quiescence): peers, topic knowledge, mesh, back-off.
func (n *simNode) stateSummary() string {
	ps := n.ps
	var b []string
	var peers []string
	for p := range ps.peers {
		peers = append(peers, shortPeer(p))
	}
	sort.Strings(peers)
	b = append(b, fmt.Sprintf("%s peers=%v", n.name, peers))
	var ts []string
	for t, m := range ps.topics {
		var l []string
		for p := range m {
			l = append(l, shortPeer(p))
		}
		sort.Strings(l)
		ts = append(ts, fmt.Sprintf("%s:%v", t, l))
	}
	sort.Strings(ts)
	b = append(b, fmt.Sprintf("topics=%v", ts))
	if gs := n.gs(); gs != nil {
		var ms []string
		for t, m := range gs.mesh {
			var l []string
			for p := range m {
				l = append(l, shortPeer(p))
			}
			sort.Strings(l)
			ms = append(ms, fmt.Sprintf("%s:%v", t, l))
		}
		sort.Strings(ms)
		var bo []string
		for t, m := range gs.backoff {
			for p := range m {
				bo = append(bo, t+"/"+shortPeer(p))
			}
		}
		sort.Strings(bo)
		var gp []string
		for p := range gs.peers {
			gp = append(gp, shortPeer(p))
		}
		sort.Strings(gp)
		b = append(b, fmt.Sprintf("gspeers=%v mesh=%v backoff=%v", gp, ms, bo))
	}
	return fmt.Sprint(b)
}
