package pubsub

// Deterministic simulator core: seeded scheduler, virtual clock (testing/synctest bubble),
// event queue, output collection, event-log digest, violations, probes.

import (
	"container/heap"
	"context"
	"crypto/sha256"
	"encoding/binary"
	"encoding/hex"
	"fmt"
	"hash"
	"os"
	"sort"
	"sync"
	"testing/synctest"
	"time"
	_ "unsafe"

	"github.com/libp2p/go-libp2p-pubsub/internal/verifrt"
	"github.com/libp2p/go-libp2p-pubsub/internal/verifrt/simrand"
	"github.com/libp2p/go-libp2p/core/peer"
)

// ---------------------------------------------------------------------------------------------
// results

type Violation struct {
	Property  string `json:"property"`
	Invariant string `json:"invariant"`
	Signature string `json:"signature"`
	Detail    string `json:"detail"`
	Step      int    `json:"step"`
	VTimeNs   int64  `json:"vtime_ns"`
}

type RunResult struct {
	Seed       uint64         `json:"seed"`
	World      string         `json:"world"`
	Prop       string         `json:"prop"`
	Violations []Violation    `json:"violations,omitempty"`
	Digest     string         `json:"digest"`
	Steps      int            `json:"steps"`
	VTimeNs    int64          `json:"vtime_ns"`
	Probes     map[string]int `json:"probes,omitempty"`
	Faults     map[string]int `json:"faults,omitempty"`
	Nontrivial bool           `json:"nontrivial"`
	Class      string         `json:"class,omitempty"` // coarse shape of the case (distinct-case measure)
	Plan       *Plan          `json:"plan,omitempty"`
	Sample     any            `json:"sample,omitempty"`
	Extra      map[string]any `json:"extra,omitempty"`
	Panic      string         `json:"panic,omitempty"`
	WallUs     int64          `json:"wall_us"`
}

// Plan is the explicit, shrinkable description of one run.
type Plan struct {
	World string             `json:"world"`
	Prop  string             `json:"prop"`
	Seed  uint64             `json:"seed"`
	Knobs map[string]float64 `json:"knobs,omitempty"`
	SK    map[string]string  `json:"sknobs,omitempty"`
	Items []Item             `json:"items"`
}

type Item struct {
	Op string   `json:"op"`
	A  []int64  `json:"a,omitempty"`
	S  []string `json:"s,omitempty"`
}

func (p *Plan) k(name string, def float64) float64 {
	if v, ok := p.Knobs[name]; ok {
		return v
	}
	return def
}
func (p *Plan) ki(name string, def int) int { return int(p.k(name, float64(def))) }
func (p *Plan) kb(name string) bool         { return p.k(name, 0) != 0 }
func (p *Plan) ks(name, def string) string {
	if v, ok := p.SK[name]; ok {
		return v
	}
	return def
}

func (it Item) a(i int) int64 {
	if i < len(it.A) {
		return it.A[i]
	}
	return 0
}
func (it Item) s(i int) string {
	if i < len(it.S) {
		return it.S[i]
	}
	return ""
}

// ---------------------------------------------------------------------------------------------
// seeded choice helpers

// prng is a small splitmix64 generator used for plan generation (before the run starts).
type prng struct{ x uint64 }

func newPrng(seed uint64, stream string) *prng {
	return &prng{verifrt.HashBytes(seed, "prng|"+stream)}
}
func (r *prng) u64() uint64 {
	r.x += 0x9e3779b97f4a7c15
	z := r.x
	z = (z ^ (z >> 30)) * 0xbf58476d1ce4e5b9
	z = (z ^ (z >> 27)) * 0x94d049bb133111eb
	return z ^ (z >> 31)
}
func (r *prng) intn(n int) int {
	if n <= 0 {
		return 0
	}
	return int(r.u64() % uint64(n))
}
func (r *prng) rng(lo, hi int) int { // inclusive
	if hi <= lo {
		return lo
	}
	return lo + r.intn(hi-lo+1)
}
func (r *prng) f() float64            { return float64(r.u64()>>11) / float64(1<<53) }
func (r *prng) chance(p float64) bool { return r.f() < p }
func (r *prng) pick(n int) int        { return r.intn(n) }
func (r *prng) perm(n int) []int {
	p := make([]int, n)
	for i := range p {
		p[i] = i
	}
	for i := n - 1; i > 0; i-- {
		j := r.intn(i + 1)
		p[i], p[j] = p[j], p[i]
	}
	return p
}
func (r *prng) bytes(n int) []byte {
	b := make([]byte, n)
	for i := 0; i < n; i += 8 {
		v := r.u64()
		for j := 0; j < 8 && i+j < n; j++ {
			b[i+j] = byte(v >> (8 * j))
		}
	}
	return b
}
func (r *prng) Read(b []byte) (int, error) { copy(b, r.bytes(len(b))); return len(b), nil }

// hv derives a run-time choice from (seed, key): deleting plan items does not shift others.
func (s *sim) hv(key string) uint64 { return verifrt.HashBytes(s.seed, key) }
func (s *sim) hn(key string, n int) int {
	if n <= 0 {
		return 0
	}
	return int(s.hv(key) % uint64(n))
}
func (s *sim) hf(key string) float64 { return float64(s.hv(key)>>11) / float64(1<<53) }

// ---------------------------------------------------------------------------------------------
// events

type simEvent struct {
	at     time.Duration
	seq    uint64
	tag    string
	run    func()
	writer bool // a parked stream writer continues (drained inside settle)
}
type evHeap []*simEvent

func (h evHeap) Len() int { return len(h) }
func (h evHeap) Less(i, j int) bool {
	if h[i].at != h[j].at {
		return h[i].at < h[j].at
	}
	return h[i].seq < h[j].seq
}
func (h evHeap) Swap(i, j int) { h[i], h[j] = h[j], h[i] }
func (h *evHeap) Push(x any)   { *h = append(*h, x.(*simEvent)) }
func (h *evHeap) Pop() any {
	o := *h
	n := len(o)
	e := o[n-1]
	*h = o[:n-1]
	return e
}

// ---------------------------------------------------------------------------------------------
// sim

type sim struct {
	seed  uint64
	plan  *Plan
	epoch time.Time
	wake  chan struct{}

	evq       evHeap
	evseq     uint64
	lastEvent *simEvent

	steps    int
	maxSteps int
	dig      hash.Hash
	logN     int

	mu        sync.Mutex // protects everything below that SUT goroutines touch
	dirty     []*pipe
	openReqs  []*openReq
	sops      []streamOp
	obs       []string // observations made by SUT-side callbacks since last collect (digest only)
	gatesNew  []*gate
	calls     []*call
	popWait   []*popWaiter
	valWait   []*popWaiter // validation workers waiting for work (released when their queue holds something)
	connWait  []*popWaiter // connector goroutines waiting for a dial request
	qnames    map[*rpcQueue]string
	nameQueue func(q *rpcQueue) string

	hosts    []*simHost
	nodes    []*simNode
	byID     map[peer.ID]*simHost
	npipes   int
	nstreams int
	nconns   int
	gates    map[string]*gate
	gateSeq  map[string]int

	viol     []Violation
	probes   map[string]int
	faults   map[string]int
	stepFns  []func() // oracles evaluated after every collect
	stopped  bool
	overflow bool

	logLines []string // optional human-readable event log (replay / debugging)
	keepLog  bool

	nontrivial bool
	class      string
	sample     any
	post       map[string]any // data handed to the post-run (outside the bubble) check
}

func newSim(plan *Plan) *sim {
	s := &sim{
		seed:     plan.Seed,
		plan:     plan,
		epoch:    time.Now(),
		wake:     make(chan struct{}, 1),
		dig:      sha256.New(),
		byID:     map[peer.ID]*simHost{},
		gates:    map[string]*gate{},
		gateSeq:  map[string]int{},
		probes:   map[string]int{},
		faults:   map[string]int{},
		maxSteps: 200000,
	}
	verifrt.SetSeed(plan.Seed)
	simrand.Reseed(plan.Seed)
	runtimeVerifSelectSeed = uint32(verifrt.HashBytes(plan.Seed, "select")) | 1
	return s
}

func (s *sim) now() time.Duration { return time.Since(s.epoch) }

func (s *sim) poke() {
	select {
	case s.wake <- struct{}{}:
	default:
	}
}

// note records an observation for the digest (callable from any goroutine).
func (s *sim) note(format string, a ...any) {
	str := fmt.Sprintf(format, a...)
	s.mu.Lock()
	s.obs = append(s.obs, str)
	s.mu.Unlock()
	s.poke()
}

func (s *sim) logf(format string, a ...any) {
	line := fmt.Sprintf(format, a...)
	var b [16]byte
	binary.BigEndian.PutUint64(b[:8], uint64(s.steps))
	binary.BigEndian.PutUint64(b[8:], uint64(s.now()))
	s.dig.Write(b[:])
	s.dig.Write([]byte(line))
	s.logN++
	if s.keepLog {
		s.logLines = append(s.logLines, fmt.Sprintf("%6d %14s [r%d] %s", s.steps, s.now(), simrand.Draws.Load(), line))
	}
}

func (s *sim) digest() string { return hex.EncodeToString(s.dig.Sum(nil))[:32] }

func (s *sim) probe(name string) { s.probes[name]++ }
func (s *sim) fault(name string) { s.faults[name]++ }

func (s *sim) violate(prop, invariant, signature, format string, a ...any) {
	if len(s.viol) >= 8 {
		return
	}
	v := Violation{Property: prop, Invariant: invariant, Signature: signature,
		Detail: fmt.Sprintf(format, a...), Step: s.steps, VTimeNs: int64(s.now())}
	s.viol = append(s.viol, v)
	s.logf("VIOLATION %s %s %s", prop, signature, v.Detail)
}

// snap places simulator events on instants whose sub-microsecond residue lies in [500,999],
// periodic timers of the system under test live in [0,499] (see newNode); the two never meet.
func (s *sim) snap(t time.Duration) time.Duration {
	base := t - t%1000
	r := time.Duration(500 + s.evseq%499)
	at := base + r
	if at < t {
		at += 1000
	}
	return at
}

// after schedules fn at now+d (snapped). d==0 means "as soon as possible".
func (s *sim) after(d time.Duration, tag string, fn func()) *simEvent {
	return s.at(s.now()+d, tag, fn)
}

func (s *sim) at(t time.Duration, tag string, fn func()) *simEvent {
	s.evseq++
	now := s.now()
	if t < now {
		t = now
	}
	e := &simEvent{at: s.snap(t), seq: s.evseq, tag: tag, run: fn}
	heap.Push(&s.evq, e)
	return e
}

// asap runs fn as the next step at the current instant (not snapped; used for same-instant chains).
func (s *sim) asap(tag string, fn func()) {
	s.evseq++
	e := &simEvent{at: s.now(), seq: s.evseq, tag: tag, run: fn}
	s.lastEvent = e
	heap.Push(&s.evq, e)
}

// settle waits for quiescence of every goroutine in the bubble and collects outputs.
func (s *sim) settle() {
	synctest.Wait()
	s.collect()
	// Stream writers waiting to take their next RPC continue now, one per quiescence, in canonical
	// order: output produced by an input is on the (simulated) wire when settle returns, as it was
	// before writers became scheduler-owned.
	for s.qnames != nil {
		idx := -1
		for i, e := range s.evq {
			if e.writer && (idx < 0 || e.seq < s.evq[idx].seq) {
				idx = i
			}
		}
		if idx < 0 {
			return
		}
		e := s.evq[idx]
		heap.Remove(&s.evq, idx)
		s.steps++
		s.logf("EV %s", e.tag)
		e.run()
		synctest.Wait()
		s.collect()
	}
}

// run executes events until virtual time `until` (offset from epoch) or until stopped.
func (s *sim) run(until time.Duration) {
	for !s.stopped {
		s.settle()
		if len(s.viol) > 0 && !s.plan.kb("keep_going") {
			s.stopped = true
			return
		}
		if s.steps >= s.maxSteps {
			s.overflow = true
			s.stopped = true
			return
		}
		now := s.now()
		if len(s.evq) > 0 && s.evq[0].at <= now {
			e := heap.Pop(&s.evq).(*simEvent)
			s.steps++
			s.logf("EV %s", e.tag)
			e.run()
			continue
		}
		if now >= until {
			return
		}
		next := until
		if len(s.evq) > 0 && s.evq[0].at < next {
			next = s.evq[0].at
		}
		tm := time.NewTimer(next - now)
		select {
		case <-s.wake:
			tm.Stop()
		case <-tm.C:
		}
	}
}

// advance runs the simulation for d of virtual time from now.
func (s *sim) advance(d time.Duration) { s.run(s.now() + d) }

// collect drains everything the system under test produced since the last quiescence, in a
// canonical order, schedules its consequences and evaluates step oracles.
func (s *sim) collect() {
	select {
	case <-s.wake:
	default:
	}
	s.mu.Lock()
	dirty := s.dirty
	s.dirty = nil
	reqs := s.openReqs
	s.openReqs = nil
	sops := s.sops
	s.sops = nil
	obs := s.obs
	s.obs = nil
	calls := s.calls
	s.calls = nil
	gnew := s.gatesNew
	s.gatesNew = nil
	pops := s.popWait
	s.popWait = nil
	s.mu.Unlock()

	// API call completions
	sort.SliceStable(calls, func(i, j int) bool { return calls[i].id < calls[j].id })
	for _, c := range calls {
		s.logf("RET #%d %s -> %s", c.id, c.name, c.resStr)
	}
	// observations (sorted: concurrent producers within one step)
	sort.Strings(obs)
	for _, o := range obs {
		s.logf("OBS %s", o)
	}
	// gates
	sort.SliceStable(gnew, func(i, j int) bool { return gnew[i].id < gnew[j].id })
	for _, g := range gnew {
		s.logf("GATE %s", g.id)
		if g.onArrive != nil {
			g.onArrive(g)
		}
	}
	// stream writers that want to take their next RPC: each continues as its own event, in a
	// canonical order (the event loop is idle by then: everything it pushed in one iteration is in
	// the queue before any writer takes something out)
	if len(pops) > 0 {
		for _, pw := range pops {
			if pw.q != nil {
				pw.name = s.queueBase(pw.q)
			}
		}
		sort.SliceStable(pops, func(i, j int) bool { return pops[i].name < pops[j].name })
		for _, pw := range pops {
			pw := pw
			if pw.q != nil {
				pw.name = s.queueName(pw.q, pw.name)
				s.asap("writer-takes "+pw.name, func() { close(pw.ch) })
			} else {
				s.asap("validated-handoff "+pw.name, func() { close(pw.ch) })
			}
			s.lastEvent.writer = true
		}
	}
	// validation workers: one waiting worker per queued request continues (workers of one node are
	// interchangeable; nodes in creation order)
	s.mu.Lock()
	vw := s.valWait
	s.valWait = nil
	s.mu.Unlock()
	if len(vw) > 0 {
		budget := map[*validation]int{}
		var keep []*popWaiter
		for _, pw := range vw {
			if pw.gone {
				continue
			}
			if _, ok := budget[pw.val]; !ok {
				budget[pw.val] = len(pw.val.validateQ)
			}
			if budget[pw.val] > 0 && !pw.scheduled {
				budget[pw.val]--
				pw.scheduled = true
				pw := pw
				name := "?"
				for _, n := range s.nodes {
					if n.ps != nil && n.ps.val == pw.val {
						name = n.name
					}
				}
				s.asap("validation-worker-takes "+name, func() { close(pw.ch) })
				s.lastEvent.writer = true
				continue
			}
			if !pw.scheduled {
				keep = append(keep, pw)
			}
		}
		s.mu.Lock()
		s.valWait = append(keep, s.valWait...)
		s.mu.Unlock()
	}
	// connectors: the same for the goroutines that dial peers named in peer exchange (the event
	// loop offers requests to a bounded channel without blocking: how many of a burst get through
	// would otherwise depend on how fast a connector drains it)
	s.mu.Lock()
	cw := s.connWait
	s.connWait = nil
	s.mu.Unlock()
	if len(cw) > 0 {
		budget := map[*GossipSubRouter]int{}
		var keep []*popWaiter
		for _, pw := range cw {
			if pw.gone {
				continue
			}
			if _, ok := budget[pw.gs]; !ok {
				budget[pw.gs] = len(pw.gs.connect)
			}
			if budget[pw.gs] > 0 && !pw.scheduled {
				budget[pw.gs]--
				pw.scheduled = true
				pw := pw
				name := "?"
				for _, n := range s.nodes {
					if n.ps != nil && n.ps.rt == PubSubRouter(pw.gs) {
						name = n.name
					}
				}
				s.asap("connector-takes "+name, func() { close(pw.ch) })
				s.lastEvent.writer = true
				continue
			}
			if !pw.scheduled {
				keep = append(keep, pw)
			}
		}
		s.mu.Lock()
		s.connWait = append(keep, s.connWait...)
		s.mu.Unlock()
	}
	// writes
	sort.SliceStable(dirty, func(i, j int) bool { return dirty[i].id < dirty[j].id })
	for _, p := range dirty {
		p.flush()
		p.mu.Lock()
		need, d := p.needUnstall, p.slow
		p.needUnstall = false
		p.mu.Unlock()
		if need {
			p := p
			s.after(d, "slow-link-accepts-next "+p.name, func() {
				p.mu.Lock()
				again := p.slow > 0 || p.stalled
				p.mu.Unlock()
				if again {
					p.setStalled(false)
				}
			})
		}
	}
	// stream operations (close/reset by the SUT)
	sort.SliceStable(sops, func(i, j int) bool {
		if sops[i].st.id != sops[j].st.id {
			return sops[i].st.id < sops[j].st.id
		}
		return sops[i].n < sops[j].n
	})
	for _, op := range sops {
		s.handleStreamOp(op)
	}
	// stream open requests
	sort.SliceStable(reqs, func(i, j int) bool { return reqs[i].key < reqs[j].key })
	for _, r := range reqs {
		s.handleOpenReq(r)
	}
	for _, f := range s.stepFns {
		f()
	}
	if s.keepLog && debugState {
		for _, n := range s.nodes {
			s.logLines = append(s.logLines, "        STATE "+n.stateSummary())
		}
	}
}

var debugState = os.Getenv("VERIF_DEBUG_STATE") != ""

// ---------------------------------------------------------------------------------------------
// scheduler-owned stream writers (verifPopTake hook)

type popWaiter struct {
	q         *rpcQueue // nil for the validated-message turnstile (name is preset)
	val       *validation
	gs        *GossipSubRouter // connector goroutines
	ch        chan struct{}
	name      string
	gone      bool
	scheduled bool
}

// scheduleWriters makes every take of an RPC from an outbound queue a simulator event. Without
// it the writer goroutine races with the event loop that fills the queue: whether two RPCs pushed
// back to back meet a full queue of size 1 would be the Go scheduler's choice.
func (s *sim) scheduleWriters() {
	s.qnames = map[*rpcQueue]string{}
	verifYieldQueueFn = func(q *rpcQueue, point int) {
		if point != verifPopTake {
			return
		}
		pw := &popWaiter{q: q, ch: make(chan struct{})}
		s.mu.Lock()
		s.popWait = append(s.popWait, pw)
		s.mu.Unlock()
		s.poke()
		<-pw.ch
	}
	// Validated messages are handed to the event loop one per quiescence, ordered by content: with
	// several validation workers or asynchronous validators the hand-off order would otherwise be
	// the Go scheduler's choice.
	// Validation workers take from the (bounded) validation queue only at quiescence, one request
	// per step: otherwise a worker that is woken by the first message of an RPC drains the queue
	// while the event loop is still filling it, and whether message 33 of a long RPC meets a full
	// queue would be the Go scheduler's choice.
	verifYieldValFn = func(v *validation, point int) {
		if point != verifValidateTake {
			return
		}
		pw := &popWaiter{val: v, ch: make(chan struct{})}
		s.mu.Lock()
		s.valWait = append(s.valWait, pw)
		s.mu.Unlock()
		s.poke()
		select {
		case <-pw.ch:
		case <-v.p.ctx.Done():
			s.mu.Lock()
			pw.gone = true
			s.mu.Unlock()
		}
	}
	verifYieldConnFn = func(gs *GossipSubRouter, point int) {
		if point != verifConnectTake {
			return
		}
		pw := &popWaiter{gs: gs, ch: make(chan struct{})}
		s.mu.Lock()
		s.connWait = append(s.connWait, pw)
		s.mu.Unlock()
		s.poke()
		select {
		case <-pw.ch:
		case <-gs.p.ctx.Done():
			s.mu.Lock()
			pw.gone = true
			s.mu.Unlock()
		}
	}
	// ... and so are message batches (two PublishBatch calls woken by the same event race for the
	// one slot of the hand-off channel otherwise)
	verifYieldBatchFn = func(b *MessageBatch, point int) {
		if point != verifSendBatch {
			return
		}
		name := "~batch empty"
		b.mu.Lock()
		if len(b.messages) > 0 {
			mb, _ := b.messages[0].Message.Marshal()
			name = fmt.Sprintf("~batch %x n=%d", shortHash(mb), len(b.messages))
		}
		b.mu.Unlock()
		pw := &popWaiter{ch: make(chan struct{}), name: name}
		s.mu.Lock()
		s.popWait = append(s.popWait, pw)
		s.mu.Unlock()
		s.poke()
		<-pw.ch
	}
	verifYieldMsgFn = func(msg *Message, point int) {
		if point != verifSendValidated {
			return
		}
		b, _ := msg.Message.Marshal()
		pw := &popWaiter{ch: make(chan struct{}), name: fmt.Sprintf("~msg %x from %s", shortHash(b), shortPeer(msg.ReceivedFrom))}
		s.mu.Lock()
		s.popWait = append(s.popWait, pw)
		s.mu.Unlock()
		s.poke()
		<-pw.ch
	}
}

// queueBase (root, at quiescence): "<node>><peer>" of an outbound queue ("~" once it has been
// replaced or removed).
func (s *sim) queueBase(q *rpcQueue) string {
	if n, ok := s.qnames[q]; ok {
		return n
	}
	for _, n := range s.nodes {
		if n.ps == nil {
			continue
		}
		for p, pq := range n.ps.peers {
			if pq == q {
				return n.name + ">" + shortPeer(p)
			}
		}
	}
	return "~"
}

// queueName: stable name of a queue, assigned (in canonical order) the first time it is seen.
func (s *sim) queueName(q *rpcQueue, base string) string {
	if n, ok := s.qnames[q]; ok {
		return n
	}
	name := fmt.Sprintf("%s#%d", base, len(s.qnames))
	s.qnames[q] = name
	return name
}

// releaseWriters (teardown): let every parked writer go.
func (s *sim) releaseWriters() {
	verifYieldQueueFn = nil
	verifYieldMsgFn = nil
	verifYieldBatchFn = nil
	verifYieldValFn = nil
	verifYieldConnFn = nil
	s.mu.Lock()
	vw := append(s.valWait, s.connWait...)
	s.valWait = nil
	s.connWait = nil
	s.mu.Unlock()
	for _, pw := range vw {
		if !pw.scheduled {
			close(pw.ch)
		}
	}
	s.mu.Lock()
	pops := s.popWait
	s.popWait = nil
	s.mu.Unlock()
	for _, pw := range pops {
		close(pw.ch)
	}
}

// ---------------------------------------------------------------------------------------------
// API calls made by simulated client tasks

type call struct {
	id     int
	name   string
	done   bool
	res    any
	resStr string
	start  time.Duration
	end    time.Duration
}

var callSeq int

// spawn runs f in its own goroutine (a simulated client task). Completion is observed at the
// next quiescence through c.done.
func (s *sim) spawn(name string, f func() any) *call {
	callSeq++
	c := &call{id: callSeq, name: name, start: s.now()}
	s.logf("CALL #%d %s", c.id, name)
	go func() {
		r := f()
		s.mu.Lock()
		c.res = r
		c.resStr = fmt.Sprint(r)
		c.done = true
		c.end = s.now()
		s.calls = append(s.calls, c)
		s.mu.Unlock()
		s.poke()
	}()
	return c
}

// do runs f as a client task and waits for quiescence; reports whether it returned.
func (s *sim) do(name string, f func() any) *call {
	c := s.spawn(name, f)
	s.settle()
	return c
}

func (c *call) isDone(s *sim) bool {
	s.mu.Lock()
	defer s.mu.Unlock()
	return c.done
}

// ---------------------------------------------------------------------------------------------
// gates: places where a simulator-owned application callback parks until the scheduler releases it

type gate struct {
	id       string
	ch       chan int
	released bool
	arrived  time.Duration
	onArrive func(*gate)
	meta     any
}

// park is called from a SUT goroutine (e.g. inside a validator). It blocks durably until the
// scheduler releases the gate or done is closed. Returns the released value and true, or 0,false.
func (s *sim) park(base string, meta any, onArrive func(*gate), done <-chan struct{}) (int, bool) {
	s.mu.Lock()
	n := s.gateSeq[base]
	s.gateSeq[base] = n + 1
	g := &gate{id: fmt.Sprintf("%s#%d", base, n), ch: make(chan int, 1), arrived: s.now(), onArrive: onArrive, meta: meta}
	s.gates[g.id] = g
	s.gatesNew = append(s.gatesNew, g)
	s.mu.Unlock()
	s.poke()
	select {
	case v := <-g.ch:
		return v, true
	case <-done:
		s.mu.Lock()
		g.released = true
		s.mu.Unlock()
		return 0, false
	}
}

func (s *sim) release(g *gate, v int) {
	s.mu.Lock()
	if g.released {
		s.mu.Unlock()
		return
	}
	g.released = true
	s.mu.Unlock()
	s.logf("RELEASE %s %d", g.id, v)
	g.ch <- v
}

func (s *sim) parkedGates() []*gate {
	s.mu.Lock()
	defer s.mu.Unlock()
	var out []*gate
	for _, g := range s.gates {
		if !g.released {
			out = append(out, g)
		}
	}
	sort.Slice(out, func(i, j int) bool { return out[i].id < out[j].id })
	return out
}

func shortPeer(p peer.ID) string {
	s := p.String()
	if len(s) > 6 {
		return s[len(s)-6:]
	}
	return s
}

func synctestWait() { synctest.Wait() }

// runtimeVerifSelectSeed is the seed of the select poll order inside bubbles; the variable lives in
// the (overlaid) runtime package, see cmd/vrewrite.
//
//go:linkname runtimeVerifSelectSeed runtime.verifSelectSeed
var runtimeVerifSelectSeed uint32

func (s *sim) bgctx() context.Context { return context.Background() }
