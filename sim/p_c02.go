package pubsub

// C02 — a message ID is delivered and validated at most once within the seen window, is
// remembered for at least the TTL and forgotten after TTL + one sweep.
// Worlds: "cache" (timecache alone, both strategies, real sweeper on the fake clock) and "node"
// (copies racing through the validation pipeline, local publish of the same ID, TTL expiry).

import (
	"crypto/sha256"
	"fmt"
	"sort"
	"time"

	pb "github.com/libp2p/go-libp2p-pubsub/pb"
	"github.com/libp2p/go-libp2p-pubsub/timecache"
)

func init() {
	registerProp("C02", genC02, map[string]func(*sim){"cache": runC02Cache, "node": runC02Node})
}

const c02Sweep = time.Minute // timecache's background sweep interval (documented behaviour: "one sweep interval")

func genC02(seed uint64, tier string) *Plan {
	r := newPrng(seed, "c02")
	if r.chance(0.4) {
		return genC02Cache(r, tier)
	}
	return genC02Node(r, tier)
}

func genC02Cache(r *prng, tier string) *Plan {
	p := &Plan{World: "cache", Knobs: map[string]float64{}}
	p.Knobs["last"] = float64(r.intn(2))
	p.Knobs["ttl_ms"] = float64([]int{1, 500, 2000, 30000, 59999, 60000, 60001, 180000}[r.intn(8)])
	nk := r.rng(1, 3)
	n := r.rng(4, 30)
	if tier == "thorough" {
		n = r.rng(4, 80)
	}
	ttl := p.ki("ttl_ms", 1000)
	if r.chance(0.06) {
		// many IDs that expire within one sweep interval (a sweep must not leave some of them behind)
		p.Items = append(p.Items, Item{Op: "bulk", A: []int64{int64(r.rng(4000, 9000))}})
	}
	for i := 0; i < n; i++ {
		switch x := r.intn(10); {
		case x < 3:
			p.Items = append(p.Items, Item{Op: "add", A: []int64{int64(r.intn(nk))}})
		case x < 6:
			p.Items = append(p.Items, Item{Op: "has", A: []int64{int64(r.intn(nk))}})
		default:
			// time steps around the interesting instants: ttl, ttl +- 1ms, sweep interval, ttl + sweep
			ds := []int{1, ttl - 1, ttl, ttl + 1, ttl / 2, 60000, 59999, 60001, ttl + 60000, ttl + 60001, r.rng(1, 200000)}
			d := ds[r.intn(len(ds))]
			if d < 1 {
				d = 1
			}
			p.Items = append(p.Items, Item{Op: "adv", A: []int64{int64(d)}})
		}
	}
	return p
}

type c02Ent struct {
	present bool          // an entry may physically exist
	expiry  time.Duration // its expiry
}

func runC02Cache(s *sim) {
	p := s.plan
	last := p.kb("last")
	ttl := time.Duration(p.ki("ttl_ms", 1000)) * time.Millisecond
	strat := timecache.Strategy_FirstSeen
	if last {
		strat = timecache.Strategy_LastSeen
	}
	tc := timecache.NewTimeCacheWithStrategy(strat, ttl)
	created := s.now()
	model := map[int64]*c02Ent{}
	// certainlyGone: a sweep has certainly run after the expiry (sweeps happen every c02Sweep from creation)
	sweptSince := func(t time.Duration, now time.Duration) bool {
		// first sweep instant strictly after t
		k := (t-created)/c02Sweep + 1
		return created+k*c02Sweep < now
	}
	nOps := 0
	bulk := map[int64]*c02Ent{}
	var bulkN int64
	for _, it := range p.Items {
		if len(s.viol) > 0 {
			break
		}
		s.steps++
		now := s.now()
		k := it.a(0)
		key := fmt.Sprintf("k%d", k)
		e := model[k]
		if e == nil {
			e = &c02Ent{}
			model[k] = e
		}
		must := e.present && now < e.expiry             // certainly remembered (strictly before expiry)
		gone := !e.present || sweptSince(e.expiry, now) // certainly forgotten
		switch it.Op {
		case "adv":
			s.advance(time.Duration(it.a(0)) * time.Millisecond)
			// a sample of the bulk entries is looked at whenever time has passed
			for _, j := range []int64{0, bulkN / 2, bulkN - 1} {
				if bulkN == 0 {
					break
				}
				now := s.now()
				got := tc.Has(fmt.Sprintf("bulk%d", j))
				be := bulk[j]
				if be == nil {
					continue
				}
				mustB := now < be.expiry
				goneB := sweptSince(be.expiry, now)
				switch {
				case mustB && !got:
					s.violate("C02", "cache-remember", "C02/cache/forgot-inside-ttl", "%s Has(bulk%d) false at %v although the entry expires at %v", stratName(last), j, now, be.expiry)
				case goneB && got:
					s.violate("C02", "cache-forget", "C02/cache/remembered-after-sweep", "%s Has(bulk%d of %d entries added together) true at %v although the entry expired at %v and a sweep ran since", stratName(last), j, bulkN, now, be.expiry)
				}
				if got && last {
					be.expiry = now + ttl
				}
				if goneB && !got {
					delete(bulk, j)
					s.probe("bulk_entry_forgotten_after_sweep")
				}
			}
			continue
		case "bulk":
			bulkN = it.a(0)
			for j := int64(0); j < bulkN; j++ {
				tc.Add(fmt.Sprintf("bulk%d", j))
			}
			for _, j := range []int64{0, bulkN / 2, bulkN - 1} {
				bulk[j] = &c02Ent{present: true, expiry: now + ttl}
			}
			s.probe("bulk_add")
			continue
		case "add":
			nOps++
			got := tc.Add(key)
			s.logf("ADD %s -> %v (must=%v gone=%v)", key, got, must, gone)
			switch {
			case must && got:
				s.violate("C02", "cache-remember", "C02/cache/forgot-inside-ttl", "%s Add(%s) reported new at %v although the entry expires at %v (ttl %v)", stratName(last), key, now, e.expiry, ttl)
			case gone && !got:
				s.violate("C02", "cache-forget", "C02/cache/remembered-after-sweep", "%s Add(%s) reported seen at %v although the entry expired at %v and a sweep ran since", stratName(last), key, now, e.expiry)
			}
			if !must && !gone {
				s.probe("cache_op_in_unknown_band")
			}
			if got || last {
				e.present, e.expiry = true, now+ttl
			}
		case "has":
			nOps++
			got := tc.Has(key)
			s.logf("HAS %s -> %v (must=%v gone=%v)", key, got, must, gone)
			switch {
			case must && !got:
				s.violate("C02", "cache-remember", "C02/cache/forgot-inside-ttl", "%s Has(%s) false at %v although the entry expires at %v (ttl %v)", stratName(last), key, now, e.expiry, ttl)
			case gone && got:
				s.violate("C02", "cache-forget", "C02/cache/remembered-after-sweep", "%s Has(%s) true at %v although the entry expired at %v and a sweep ran since", stratName(last), key, now, e.expiry)
			}
			if !must && !gone {
				s.probe("cache_op_in_unknown_band")
			}
			if got && last {
				e.present, e.expiry = true, now+ttl
				if now > created+2*ttl {
					s.probe("last_seen_kept_alive_by_has")
				}
			}
			if !got {
				e.present = false
			}
		}
	}
	tc.Done()
	s.nontrivial = nOps >= 2
	s.class = fmt.Sprintf("cache/%v/%d/%x", last, p.ki("ttl_ms", 0), shortHash([]byte(c02ClassStr(p))))
	s.sample = map[string]any{"strategy": stratName(last), "ttl_ms": p.ki("ttl_ms", 0), "ops": len(p.Items)}
}

func c02ClassStr(p *Plan) string {
	s := ""
	for _, it := range p.Items {
		s += fmt.Sprintf("%s%d,", it.Op, it.a(0))
	}
	return s
}

func stratName(last bool) string {
	if last {
		return "last-seen"
	}
	return "first-seen"
}

// ---------------------------------------------------------------------------------------------

func genC02Node(r *prng, tier string) *Plan {
	p := &Plan{World: "node", Knobs: map[string]float64{}, SK: map[string]string{}}
	p.SK["router"] = []string{"gossipsub", "floodsub"}[r.intn(2)]
	p.Knobs["ntopics"] = 1
	p.Knobs["hb_ms"] = 1000
	p.Knobs["seen_last"] = float64(r.intn(2))
	ttl := []int{2000, 5000, 30000, 90000}[r.intn(4)]
	p.Knobs["seen_ttl_ms"] = float64(ttl)
	p.Knobs["idfn"] = float64(r.intn(3))
	genDegrees(r, p, 4)
	p.SK["sign"] = []string{"strict", "strict", "strictnosign", "laxnosign"}[r.intn(4)]
	p.Knobs["nval_default"] = float64(r.rng(0, 2))
	p.Knobs["topic_val"] = float64(r.intn(2))
	p.Knobs["v0_inline"] = float64(r.intn(2))
	p.Knobs["v1_inline"] = float64(r.intn(2))
	p.Knobs["v3_inline"] = float64(r.intn(2))
	p.Knobs["workers"] = float64(r.rng(1, 3))
	p.Knobs["p_park"] = []float64{0, 0.3, 0.7}[r.intn(3)]
	p.Knobs["val_queue"] = 32
	if p.SK["router"] == "gossipsub" && r.chance(0.25) {
		// peer scoring with its own (shorter) delivery-record window: unrelated to the seen window
		p.Knobs["scoring"] = 1
		p.Knobs["score_seen_ttl_ms"] = float64([]int{1, 500, 5000}[r.intn(3)])
	}
	add := func(op string, a ...int64) { p.Items = append(p.Items, Item{Op: op, A: a}) }
	add("node-sub", 0)
	for k := r.intn(3); k > 0; k-- {
		add("node-sub", 0)
	}
	np := r.rng(2, 6)
	for i := 0; i < np; i++ {
		add("peer", int64(i), int64(r.intn(5)), int64(r.intn(2)), int64(i))
		add("identify", int64(i))
		add("adv", 5)
		add("open", int64(i))
		add("sub", int64(i), 0)
	}
	n := r.rng(8, 30)
	if tier == "thorough" {
		n = r.rng(8, 70)
	}
	for k := 0; k < n; k++ {
		i := int64(r.intn(np))
		x := r.intn(100)
		switch {
		case x < 15:
			add("pub", i, 0, int64(r.rng(8, 60)))
		case x < 18:
			add("pubdup", i, 0, int64(r.rng(8, 60)))
		case x < 50:
			add("resend", i, int64(r.intn(5)))
		case x < 54:
			add("node-pub-same", int64(r.intn(5)), 0) // local publish whose content equals a known message (same ID under content hash)
		case x < 55:
			add("node-pub-same", int64(r.intn(5)), 1) // ... as a local-only publication
		case x < 56:
			add("batch-reuse", int64(r.rng(1, 3)), int64(r.intn(2))) // one MessageBatch published twice
		case x < 57:
			add("node-tclose-try", 0) // Topic.Close while the topic is in use (refused) or not (the handle is joined again on next use)
		case x < 60:
			add("node-pub", 0, int64(r.rng(8, 60)))
		case x < 78:
			add("release", int64(r.intn(5)))
		case x < 84:
			add("adv", int64(r.rng(1, 500)))
		case x < 90:
			add("adv", int64(ttl-1))
		case x < 94:
			add("adv", int64(ttl+60000+r.rng(1, 3000)))
		case x < 97:
			add("adv", int64(r.rng(ttl/2, ttl+70000)))
		default:
			add("release-all")
		}
	}
	return p
}

func indexByte(s string, c byte) int {
	for i := 0; i < len(s); i++ {
		if s[i] == c {
			return i
		}
	}
	return -1
}

func contentID(m *pb.Message) string {
	h := sha256.Sum256(m.GetData())
	return string(h[:8])
}

func runC02Node(s *sim) {
	w := newNodeWorld(s)
	p := w.plan
	var extra []Option
	idfn := p.ki("idfn", 0)
	if idfn == 1 {
		extra = append(extra, WithMessageIdFn(contentID))
	}
	if err := w.startNode(extra...); err != nil {
		s.violate("SIM", "setup", "SIM/setup", "node creation failed: %v", err)
		return
	}
	if idfn == 2 {
		w.n.topicOpts = func(string) []TopicOpt { return []TopicOpt{WithTopicMessageIdFn(contentID)} }
	}
	ttl := time.Duration(p.ki("seen_ttl_ms", 120000)) * time.Millisecond
	last := p.kb("seen_last")
	idOf := func(m *pb.Message) string {
		if idfn != 0 {
			return contentID(m)
		}
		return DefaultMsgIdFn(m)
	}
	// sightings: every copy handed to the node (arrival) by id
	type sight struct {
		t     time.Duration
		local bool
	}
	arrivals := map[string][]sight{}
	localAttempts := map[string][]time.Duration{} // local publications of an ID that also exists remotely
	w.onFakePub = func(fp *fakePeer, m *pb.Message) {
		id := idOf(m)
		arrivals[id] = append(arrivals[id], sight{s.now(), false})
	}
	w.extraOps["node-pub-same"] = func(it Item) {
		ids := w.sentIDs()
		if len(ids) == 0 {
			return
		}
		m := w.sent[ids[int(it.a(0))%len(ids)]]
		data := m.GetData()
		if idfn != 0 {
			arrivals[idOf(m)] = append(arrivals[idOf(m)], sight{s.now(), true})
			localAttempts[idOf(m)] = append(localAttempts[idOf(m)], s.now())
			s.probe("local_publish_same_id")
		}
		s.do("Publish same content", func() any {
			t, err := w.n.topic(m.GetTopic())
			if err != nil {
				return err
			}
			if it.a(1) == 1 {
				return t.Publish(s.bgctx(), data, WithLocalPublication(true))
			}
			return t.Publish(s.bgctx(), data)
		})
	}
	w.extraOps["node-tclose-try"] = func(it Item) {
		topic := w.topicName(it.a(0))
		w.n.mu.Lock()
		tp := w.n.topics[topic]
		w.n.mu.Unlock()
		if tp == nil || len(s.parkedGates()) > 0 {
			// (a Publish parked in a validator holds the handle's read lock: Close would wait on the
			// mutex, which is not a durable block)
			return
		}
		c := s.do("Topic.Close "+topic, func() any { return tp.Close() })
		if !c.isDone(s) {
			return
		}
		if c.res == nil {
			w.n.mu.Lock()
			delete(w.n.topics, topic)
			w.n.mu.Unlock()
			s.probe("topic_closed_and_joined_again_later")
		} else {
			s.probe("topic_close_refused")
		}
	}
	w.extraOps["batch-reuse"] = func(it Item) {
		var batch MessageBatch
		topic := w.topicName(0)
		addOne := func() {
			data := w.mkData(24)
			if idfn != 0 {
				id := contentID(&pb.Message{Topic: &topic, Data: data})
				arrivals[id] = append(arrivals[id], sight{s.now(), true})
				localAttempts[id] = append(localAttempts[id], s.now())
			}
			s.do("AddToBatch", func() any {
				t, err := w.n.topic(topic)
				if err != nil {
					return err
				}
				return t.AddToBatch(s.bgctx(), &batch, data)
			})
		}
		for k := int64(0); k < it.a(0); k++ {
			addOne()
		}
		s.do("PublishBatch", func() any { return w.n.ps.PublishBatch(&batch) })
		if it.a(1) == 1 {
			addOne()
		}
		s.probe("batch_published_twice")
		s.do("PublishBatch (same batch again)", func() any { return w.n.ps.PublishBatch(&batch) })
	}
	w.atEnd = append(w.atEnd, func() {
		for round := 0; round < 8192; round++ {
			g := s.parkedGates()
			if len(g) == 0 {
				break
			}
			for _, x := range g {
				s.release(x, 0)
				s.settle()
			}
		}
		s.settle()
		// sightings: instants at which an ID passed the seen-check-and-mark (VALIDATE trace: emitted
		// exactly when markSeen reported the ID as new); validator invocations and deliveries per ID
		sightings := map[string][]time.Duration{}
		w.n.mu.Lock()
		// (unsigned messages with no validator registered skip the pipeline: they are marked seen and
		// delivered in one step, so the delivery trace is the sighting)
		noPipeline := len(w.vals) == 0 && (p.ks("sign", "strict") == "strictnosign" || p.ks("sign", "strict") == "laxnosign")
		for _, r := range w.n.raw {
			if r.kind == "validate" || (noPipeline && r.kind == "deliver") {
				sightings[r.mid] = append(sightings[r.mid], r.t)
			}
		}
		if noPipeline {
			s.probe("no_validation_pipeline")
		}
		w.n.mu.Unlock()
		vcount := map[string]int{}
		localCalls := map[string]map[int][]time.Duration{} // id -> validator -> times of local invocations
		for _, c := range w.calls() {
			vcount[fmt.Sprintf("v%d|%s", c.val, c.mid)]++
			if c.local {
				if localCalls[c.mid] == nil {
					localCalls[c.mid] = map[int][]time.Duration{}
				}
				localCalls[c.mid][c.val] = append(localCalls[c.mid][c.val], c.t)
			}
		}
		// local publications are not reported to raw tracers: a local sighting is an invocation of
		// the first applicable validator with local origin
		for id, m := range localCalls {
			lo := -1
			for v := range m {
				if lo < 0 || v < lo {
					lo = v
				}
			}
			sightings[id] = append(sightings[id], m[lo]...)
			s.probe("local_sighting")
		}
		dcount := map[string]int{}
		for _, ss := range w.n.subs {
			for _, m := range ss.messages() {
				dcount[fmt.Sprintf("s%d|%s", ss.id, w.n.ps.idGen.ID(m))]++
			}
		}
		var sids []string
		for id := range sightings {
			sids = append(sids, id)
		}
		sort.Strings(sids)
		for _, id := range sids {
			ts := sightings[id]
			sort.Slice(ts, func(i, j int) bool { return ts[i] < ts[j] })
			for i := 1; i < len(ts); i++ {
				if ts[i] < ts[i-1]+ttl {
					s.violate("C02", "at-most-once", "C02/node/seen-twice-in-window", "ID %x was accepted as new at %v and again at %v, inside the seen window (ttl %v, %s)", shortHash([]byte(id)), ts[i-1], ts[i], ttl, stratName(last))
				} else {
					s.probe("repeat_after_window_validated")
				}
			}
		}
		sh := func(k string) string { return k[:3] + fmt.Sprintf("%x", shortHash([]byte(k[3:]))) }
		sortedKeys := func(m map[string]int) []string {
			var ks []string
			for k := range m {
				ks = append(ks, k)
			}
			sort.Strings(ks)
			return ks
		}
		for _, k := range sortedKeys(vcount) {
			n := vcount[k]
			id := k[indexByte(k, '|')+1:]
			if n > len(sightings[id]) {
				s.violate("C02", "at-most-once", "C02/node/validated-more-than-sighted", "%s was invoked %d times for %d sightings of the ID", sh(k), n, len(sightings[id]))
			}
		}
		for _, k := range sortedKeys(dcount) {
			n := dcount[k]
			id := k[indexByte(k, '|')+1:]
			ns := len(sightings[id])
			if len(w.vals) == 0 {
				// without validators a local publication leaves no sighting trace: it may count as a new
				// sighting when it comes at least one TTL after the previous one (inside the TTL it must be a
				// duplicate and deliver nothing)
				ts := append([]time.Duration(nil), sightings[id]...)
				sort.Slice(ts, func(i, j int) bool { return ts[i] < ts[j] })
				for _, la := range localAttempts[id] {
					ok := true
					for _, t0 := range ts {
						if la >= t0 && la < t0+ttl {
							ok = false
						}
					}
					if ok {
						ns++
						ts = append(ts, la)
					}
				}
			}
			if n > ns && !(ns == 0 && len(w.vals) == 0) {
				s.violate("C02", "at-most-once", "C02/node/delivered-more-than-sighted", "%s got %d deliveries for %d sightings of the ID", sh(k), n, ns)
			}
		}
		vfirst := map[string][]time.Duration{}
		vtimes := vfirst
		_ = vtimes
		// eventually forgotten: an arrival later than (latest possible expiry + one sweep) after the
		// previous sighting must be treated as new (validated again) when nothing parks in this run
		if p.k("p_park", 0) == 0 {
			var ids []string
			for id := range arrivals {
				ids = append(ids, id)
			}
			sort.Strings(ids)
			for _, id := range ids {
				as := arrivals[id]
				for i := 1; i < len(as); i++ {
					gap := as[i].t - as[i-1].t
					if gap > ttl+c02Sweep+time.Second && !as[i].local {
						s.probe("copy_after_ttl_plus_sweep")
						// must have been validated (first default validator) at as[i].t
						found := false
						for _, t := range sightings[id] {
							if t >= as[i].t && t <= as[i].t+time.Millisecond {
								found = true
							}
						}
						if !found {
							s.violate("C02", "forget", "C02/node/not-forgotten", "copy of %x arriving %v after the previous sighting (ttl %v + sweep %v) was not treated as new", shortHash([]byte(id)), gap, ttl, c02Sweep)
						}
					}
					if gap < ttl && gap > ttl-2*time.Millisecond {
						s.probe("copy_in_last_ttl_millisecond")
					}
				}
				if len(as) > 1 {
					s.probe("id_with_several_copies")
				}
			}
		}
		s.nontrivial = len(arrivals) > 0
		s.class = fmt.Sprintf("node/%s/%v/%d/%x", w.n.router, last, idfn, shortHash([]byte(c13ClassStrAll(w))))
	})
	w.run()
}
