package pubsub

// C06 — every forwarded copy goes to exactly the peers the router rules require, unchanged.
// W-NODE, each router. Before every trigger (remote message, local publish) the router state is
// snapshotted; a reference rule computes forbidden / required / allowed recipient sets; the
// actual recipients are read at the wire in the same step.

import (
	"bytes"
	"context"
	"encoding/base64"
	"fmt"
	"math"
	"sort"
	"time"

	pb "github.com/libp2p/go-libp2p-pubsub/pb"
	"github.com/libp2p/go-libp2p/core/crypto"
	"github.com/libp2p/go-libp2p/core/peer"
)

func init() {
	registerProp("C06", genC06, map[string]func(*sim){"node": runC06})
}

func genC06(seed uint64, tier string) *Plan {
	r := newPrng(seed, "c06")
	p := &Plan{World: "node", Knobs: map[string]float64{}, SK: map[string]string{}}
	p.SK["router"] = []string{"gossipsub", "gossipsub", "gossipsub", "floodsub", "randomsub"}[r.intn(5)]
	p.Knobs["ntopics"] = 2
	p.Knobs["scoring"] = float64(b2i(r.chance(0.8)))
	p.Knobs["flood_publish"] = float64(r.intn(2))
	p.Knobs["ghost_rsa"] = float64(b2i(r.chance(0.3)))
	p.Knobs["hb_ms"] = 1000
	p.Knobs["publish_thr"] = float64(-r.rng(1, 5))
	p.Knobs["gossip_thr"] = float64(-r.rng(0, 1))
	p.Knobs["graylist_thr"] = -100
	p.Knobs["prune_backoff_s"] = float64(r.rng(2, 10))
	p.Knobs["rsize"] = float64([]int{1, 10, 50, 100}[r.intn(4)])
	p.Knobs["idw_threshold"] = 0
	// one run in four under the lax no-sign policy: scripted peers send unsigned messages that still name their author
	// (the strict no-sign policy would refuse the signed third-party and per-publish messages this check also uses)
	p.SK["sign"] = []string{"strict", "strict", "strict", "laxnosign"}[r.intn(4)]
	p.Knobs["seen_ttl_ms"] = 600000
	p.Knobs["fanout_ttl_s"] = float64([]int{2, 3, 5, 60}[r.intn(4)])
	if r.chance(0.1) {
		p.Knobs["fanout_ttl_max"] = 1 // FanoutTTL = the largest duration: fanout state is never to expire
	}
	genDegrees(r, p, 5)
	add := func(op string, a ...int64) { p.Items = append(p.Items, Item{Op: op, A: a}) }
	if r.chance(0.75) {
		add("node-sub", 0)
	}
	np := r.rng(3, 10)
	if p.SK["router"] == "randomsub" && r.chance(0.5) {
		np = r.rng(7, 12)
	}
	if tier == "thorough" {
		np += r.intn(5)
	}
	for i := 0; i < np; i++ {
		v := int64(r.intn(4))
		if r.chance(0.25) {
			v = 4
		}
		if p.SK["router"] == "randomsub" {
			v = []int64{5, 5, 5, 4}[r.intn(4)]
		}
		add("peer", int64(i), v, int64(r.intn(2)), int64(i))
		if r.chance(0.93) {
			add("identify", int64(i))
			add("adv", 4)
		}
		add("open", int64(i))
		for t := 0; t < 2; t++ {
			if r.chance(0.8) {
				add("sub", int64(i), int64(t))
			}
		}
		if r.chance(0.35) {
			add("score", int64(i), int64(r.rng(-6, 3))*1000)
		}
		if r.chance(0.1) {
			add("direct-add", int64(i))
		}
	}
	add("adv", int64(r.rng(300, 2500)))
	n := r.rng(10, 34)
	if tier == "thorough" {
		n = r.rng(10, 70)
	}
	for k := 0; k < n; k++ {
		i := int64(r.intn(np))
		t := int64(r.intn(2))
		x := r.intn(100)
		switch {
		case x < 16:
			add("pub", i, t, int64(r.rng(8, 200)))
		case x < 24:
			add("fwd", i, t, int64(r.rng(8, 200)), int64(r.intn(np+1))) // author may be an unconnected identity (index np)
		case x < 30:
			add("pubidw", i, t, int64(r.rng(8, 200)), int64(r.rng(1, 3)))
		case x < 34:
			add("pubx", i, t, int64(r.rng(8, 100)))
		case x < 48:
			add("node-pub", t, int64(r.rng(8, 200)))
		case x < 49:
			add("node-pub-local", t, int64(r.rng(8, 60)))
		case x < 51:
			switch r.intn(3) {
			case 0:
				add("batch-local", t, int64(r.rng(8, 60)))
			case 1:
				add("batch2", int64(r.rng(8, 60)))
			default:
				add("node-pub-key", t, int64(r.rng(8, 60)))
			}
			if r.chance(0.4) {
				// keep publishing to one topic for longer than the fanout TTL
				for c := r.rng(3, 7); c > 0; c-- {
					add("node-pub", 1, int64(r.rng(8, 60)))
					add("adv", int64(r.rng(600, 1900)))
				}
			}
		case x < 58:
			add("adv", int64(r.rng(300, 2500)))
		case x < 64:
			add("score", i, int64(r.rng(-7, 3))*1000)
		case x < 68:
			add("score", i, int64(p.Knobs["publish_thr"])*1000) // exactly on the publish threshold
		case x < 73:
			add("graft", i, t)
		case x < 77:
			add("prune", i, t, int64(r.intn(2)*r.rng(1, 10)))
		case x < 80:
			add("unsub", i, t)
		case x < 84:
			add("sub", i, t)
		case x < 87:
			add("direct-add", i)
		case x < 88:
			add("direct-rm", i)
		case x < 91:
			add("node-sub", t)
		case x < 93:
			add("node-cancel", int64(r.intn(2)))
		case x < 95:
			add("disconnect", i)
		case x < 97:
			add("stall", i, int64(r.intn(2)))
		default:
			add("reset-in", i)
		}
	}
	return p
}

func runC06(s *sim) {
	w := newNodeWorld(s)
	p := w.plan
	if err := w.startNode(); err != nil {
		s.violate("SIM", "setup", "SIM/setup", "node creation failed: %v", err)
		return
	}
	router := w.n.router
	gs := w.n.gs()
	scoring := p.kb("scoring") && gs != nil
	nTrig := 0
	// an identity that is never connected (author of forwarded messages)
	ghostKey := genKey(newPrng(p.Seed, "ghost"), 0)
	if p.kb("ghost_rsa") {
		// an author whose key is not embedded in its ID: its messages carry the key field
		kb, _ := base64.StdEncoding.DecodeString(c03RSA[int(p.Seed%2)])
		ghostKey, _ = crypto.UnmarshalPrivateKey(kb)
	}
	ghostID, _ := peer.IDFromPrivateKey(ghostKey)
	ghostSeq := uint64(0)

	type trigger struct {
		mid    string
		msg    *pb.Message
		topic  string
		source peer.ID // forwarder ("" for local)
		author peer.ID
		local  bool
		only   bool // local-only publication
		raw    []byte
	}
	judge := func(pre, post *snapshot, tr trigger, op string) {
		nTrig++
		// actual recipients
		got := map[peer.ID]bool{}
		for _, i := range w.forder {
			fp := w.fakes[i]
			for _, o := range framesBetween(w, i, pre, post) {
				for _, m := range o.rpc.GetPublish() {
					same := false
					if tr.mid != "" {
						same = w.midFor(m) == tr.mid
					} else {
						same = bytes.Equal(m.GetData(), tr.msg.GetData())
					}
					if !same {
						continue
					}
					got[fp.id] = true
					// copy fidelity
					if tr.raw != nil {
						b, _ := m.Marshal()
						if !bytes.Equal(b, tr.raw) {
							s.violate("C06", "fidelity", "C06/"+router+"/copy-altered", "the copy of message %x sent to %s differs from the accepted message (%d vs %d bytes)", shortHash([]byte(tr.mid)), fp.name, len(b), len(tr.raw))
						} else if len(m.XXX_unrecognized) > 0 {
							s.probe("unknown_fields_preserved")
						}
					}
				}
			}
		}
		tmap := pre.topics[tr.topic]
		usable := func(id peer.ID) bool { // an outbound stream exists and works, nothing was dropped
			i, ok := w.fakeIndex(id)
			if !ok {
				return false
			}
			if !pre.inAlive[i] || !post.inAlive[i] || pre.stalled[i] || post.stalled[i] {
				return false
			}
			for _, r := range rawBetween(w, pre, post) {
				if r.kind == "drop" && r.p == id {
					return false
				}
			}
			return true
		}
		name := func(id peer.ID) string {
			if fp := w.fakeByID(id); fp != nil {
				return fp.name
			}
			return shortPeer(id)
		}
		// forbidden
		for id := range got {
			why := ""
			switch {
			case tr.only:
				why = "local-only publication"
			case id == tr.source:
				why = "source"
			case id == tr.author:
				why = "author"
			default:
				if _, ok := tmap[id]; !ok {
					why = "not in topic"
				}
			}
			if why != "" {
				s.violate("C06", "forbidden", "C06/"+router+"/sent-to-forbidden/"+why, "%s: message sent to %s (%s)", op, name(id), why)
			}
		}
		if tr.only {
			s.probe("local_only_publication")
			return
		}
		required := map[peer.ID]string{}
		allowed := map[peer.ID]bool{}
		sc := func(id peer.ID) float64 {
			if !scoring {
				return 0
			}
			return pre.scores[id]
		}
		switch router {
		case "floodsub":
			for id := range tmap {
				if id != tr.source && id != tr.author {
					required[id] = "topic peer"
					allowed[id] = true
				}
			}
		case "randomsub":
			var rs []peer.ID
			rt := w.n.ps.rt.(*RandomSubRouter)
			for id := range tmap {
				if id == tr.source || id == tr.author {
					continue
				}
				allowed[id] = true
				if rt.peers[id] == FloodSubID {
					required[id] = "floodsub peer"
				} else {
					rs = append(rs, id)
				}
			}
			if len(rs) <= RandomSubD {
				for _, id := range rs {
					required[id] = "randomsub peer (exhaustive)"
				}
			} else {
				s.probe("randomsub_sampling")
				target := RandomSubD
				if q := int(math.Ceil(math.Sqrt(float64(p.ki("rsize", 3))))); q > target {
					target = q
				}
				if target > len(rs) {
					target = len(rs)
				}
				n, allUsable := 0, true
				for _, id := range rs {
					if got[id] {
						n++
					}
					if !usable(id) {
						allUsable = false
					}
				}
				if allUsable && n != target {
					s.violate("C06", "randomsub", "C06/randomsub/sample-size", "%s: %d of %d randomsub peers received the message, want exactly %d", op, n, len(rs), target)
				}
			}
		default:
			flood := gs.floodPublish && tr.local
			if flood {
				s.probe("flood_publish")
				for id := range tmap {
					if pre.direct[id] || sc(id) >= gs.publishThreshold {
						required[id] = "flood publish"
						allowed[id] = true
						if sc(id) == gs.publishThreshold {
							s.probe("peer_exactly_at_publish_threshold")
						}
					} else {
						s.probe("flood_publish_excludes_low_score")
					}
				}
			} else {
				for id := range pre.direct {
					if _, ok := tmap[id]; ok {
						required[id] = "direct peer"
						allowed[id] = true
					}
				}
				for id := range tmap {
					if !gs.feature(GossipSubFeatureMesh, pre.gsPeers[id]) {
						if sc(id) >= gs.publishThreshold {
							required[id] = "floodsub peer"
							allowed[id] = true
							if sc(id) == gs.publishThreshold {
								s.probe("peer_exactly_at_publish_threshold")
							}
						} else {
							s.probe("floodsub_peer_below_threshold")
						}
					}
				}
				csum := computeChecksum(tr.mid)
				if m, ok := pre.mesh[tr.topic]; ok {
					for id := range m {
						if _, uw := pre.unwanted[id][csum]; uw {
							s.probe("idontwant_sender_in_mesh")
							continue
						}
						required[id] = "mesh member"
						allowed[id] = true
					}
				} else {
					s.probe("fanout_publish")
					pf, had := pre.fanout[tr.topic]
					qf := post.fanout[tr.topic]
					eligible := func(id peer.ID) bool {
						_, in := tmap[id]
						return in && gs.feature(GossipSubFeatureMesh, pre.gsPeers[id]) && !pre.direct[id] && sc(id) >= gs.publishThreshold
					}
					if had && len(pf) > 0 {
						if d := diffSets(pf, qf); d != "" {
							s.violate("C06", "fanout", "C06/fanout/reselected", "%s: a non-empty fanout set changed on publish: %s", op, d)
						}
					} else {
						ne := 0
						for id := range tmap {
							if eligible(id) {
								ne++
							}
						}
						if len(qf) != mini(gs.params.D, ne) {
							s.violate("C06", "fanout", "C06/fanout/size", "%s: new fanout set has %d members, want min(D=%d, eligible=%d)", op, len(qf), gs.params.D, ne)
						}
						for id := range qf {
							if !eligible(id) {
								s.violate("C06", "fanout", "C06/fanout/ineligible-member", "%s: %s selected for fanout although not eligible (score %v, threshold %v)", op, name(id), sc(id), gs.publishThreshold)
							}
						}
					}
					for id := range qf {
						if _, uw := pre.unwanted[id][csum]; uw {
							continue
						}
						required[id] = "fanout member"
						allowed[id] = true
					}
				}
			}
			delete(required, tr.source)
			delete(required, tr.author)
		}
		for id, why := range required {
			if id == tr.source || id == tr.author {
				continue
			}
			if _, in := tmap[id]; !in {
				continue // not known to be in the topic: forbidden dominates
			}
			if !got[id] && usable(id) {
				s.violate("C06", "required", "C06/"+router+"/not-sent-to-required/"+why, "%s: message not sent to %s (%s)", op, name(id), why)
			}
			if got[id] {
				s.probe("required_recipient_" + map[bool]string{true: "ok"}[true])
			}
		}
		for id := range got {
			if !allowed[id] && id != tr.source && id != tr.author {
				if _, in := tmap[id]; in {
					s.violate("C06", "allowed", "C06/"+router+"/sent-to-unexpected", "%s: message sent to %s, which no rule selects (score %v, mesh-capable %v, direct %v)", op, name(id), sc(id), gs != nil && gs.feature(GossipSubFeatureMesh, pre.gsPeers[id]), pre.direct[id])
				}
			}
		}
		if tr.author != "" && tr.author != tr.source && w.fakeByID(tr.author) != nil {
			s.probe("author_connected_and_distinct_from_source")
		}
	}

	// fanout stability across publishes: members stay while eligible and the topic keeps being published to
	type fanState struct {
		set  map[peer.ID]bool
		last time.Duration
	}
	fan := map[string]*fanState{}
	if gs != nil {
		w.afterHeartbeat = append(w.afterHeartbeat, func(hpre, hpost *snapshot) {
			for t, f := range fan {
				if _, joinedNow := hpost.mesh[t]; joinedNow {
					delete(fan, t)
					continue
				}
				for id := range f.set {
					_, in := hpost.topics[t][id]
					sc := 0.0
					if scoring {
						sc = hpost.scores[id]
					}
					if _, conn := hpost.gsPeers[id]; !in || !conn || sc < gs.publishThreshold || hpost.direct[id] {
						delete(f.set, id)
					}
				}
			}
		})
	}
	fanoutTTL := time.Duration(p.ki("fanout_ttl_s", 60)) * time.Second
	if p.kb("fanout_ttl_max") {
		fanoutTTL = time.Duration(math.MaxInt64)
	}
	checkFanoutKept := func(post *snapshot, topic, op string) {
		if gs == nil {
			return
		}
		if _, joined := post.mesh[topic]; joined {
			delete(fan, topic)
			return
		}
		now := post.t
		if f := fan[topic]; f != nil && now-f.last < fanoutTTL-1500*time.Millisecond {
			for id := range f.set {
				_, in := post.topics[topic][id]
				if in && !post.fanout[topic][id] {
					s.violate("C06", "fanout", "C06/fanout/member-dropped-while-publishing", "%s: fanout member %s of %s was dropped although it stayed eligible and the topic was published to %v ago (fanout TTL %v)", op, shortPeer(id), topic, now-f.last, fanoutTTL)
				}
			}
			s.probe("fanout_kept_across_publishes")
			if now > fanoutTTL {
				s.probe("fanout_older_than_ttl_still_published")
			}
		}
		set := map[peer.ID]bool{}
		for id := range post.fanout[topic] {
			set[id] = true
		}
		fan[topic] = &fanState{set: set, last: now}
	}
	var pre *snapshot
	var pending *trigger
	var morePending []*trigger
	w.beforeItem = append(w.beforeItem, func(it Item) {
		pre = w.snapshot()
		pending = nil
	})
	remote := func(fp *fakePeer, m *pb.Message) {
		raw, _ := m.Marshal()
		pending = &trigger{mid: w.midFor(m), msg: m, topic: m.GetTopic(), source: fp.id, author: peer.ID(m.GetFrom()), raw: raw}
	}
	w.onFakePub = func(fp *fakePeer, m *pb.Message) {
		// only first sightings are triggers (a re-send is a duplicate and must not be forwarded at all)
		if len(w.sentBy[midOf(m)]) <= 1 {
			remote(fp, m)
		}
	}
	w.extraOps["pubidw"] = func(it Item) {
		fp := w.fake(int(it.a(0)))
		if fp == nil || !fp.outAlive() {
			return
		}
		m := fp.signedMsg(w.topicName(it.a(1)), w.mkData(int(it.a(2))))
		// some other peers announce IDONTWANT for it first (each its own step)
		k := int(it.a(3))
		for _, i := range w.forder {
			o := w.fakes[i]
			if o == fp || k == 0 || !o.outAlive() {
				continue
			}
			if s.hn(fmt.Sprintf("idw|%s|%d", midOf(m), i), 2) == 0 {
				o.send(rpcIDontWant(midOf(m)))
				s.settle()
				k--
			}
		}
		pre = w.snapshot()
		w.sent[midOf(m)] = m
		w.noteSentBy(fp, m)
		remote(fp, m)
		fp.send(rpcPub(m))
	}
	w.extraOps["pubx"] = func(it Item) { // message with unknown protobuf fields (covered by the signature)
		fp := w.fake(int(it.a(0)))
		if fp == nil || !fp.outAlive() {
			return
		}
		topic := w.topicName(it.a(1))
		m := &pb.Message{Data: w.mkData(int(it.a(2))), Topic: &topic, From: []byte(fp.id), Seqno: fp.nextSeqno()}
		m.XXX_unrecognized = []byte{0xb8, 0x06, 0x2a, 0xc2, 0x06, 0x03, 'a', 'b', 'c'} // fields 103 (varint) and 104 (bytes)
		signMessage(fp.id, fp.priv, m)
		w.sent[midOf(m)] = m
		w.noteSentBy(fp, m)
		remote(fp, m)
		fp.send(rpcPub(m))
	}
	// fwd with an unconnected author

	w.extraOps["node-pub-local"] = func(it Item) {
		topic := w.topicName(it.a(0))
		data := w.mkData(int(it.a(1)))
		pending = &trigger{msg: &pb.Message{Data: data}, topic: topic, local: true, only: true}
		s.do("Publish local-only "+topic, func() any {
			t, err := w.n.topic(topic)
			if err != nil {
				return err
			}
			return t.Publish(context.Background(), data, WithLocalPublication(true))
		})
	}
	w.extraOps["batch-local"] = func(it Item) { // local-only publication through a batch
		topic := w.topicName(it.a(0))
		data := w.mkData(int(it.a(1)))
		pending = &trigger{msg: &pb.Message{Data: data}, topic: topic, local: true, only: true}
		s.probe("local_only_publication_in_batch")
		s.do("AddToBatch(local-only)+PublishBatch "+topic, func() any {
			t, err := w.n.topic(topic)
			if err != nil {
				return err
			}
			var b MessageBatch
			if err := t.AddToBatch(context.Background(), &b, data, WithLocalPublication(true)); err != nil {
				return err
			}
			return w.n.ps.PublishBatch(&b)
		})
	}
	w.localHook = func(topic string, data []byte, c *call) {
		pending = &trigger{msg: &pb.Message{Data: data}, topic: topic, local: true, author: w.n.h.id}
	}
	w.extraOps["node-pub-key"] = func(it Item) {
		// own publication under a per-publish identity: From is not the host ID, it is still the
		// node's own message (flood publish applies)
		topic := w.topicName(it.a(0))
		data := w.mkData(int(it.a(1)))
		pending = &trigger{msg: &pb.Message{Data: data}, topic: topic, local: true, author: ghostID}
		s.probe("own_publication_with_per_publish_identity")
		s.do("Publish(WithSecretKeyAndPeerId) "+topic, func() any {
			t, err := w.n.topic(topic)
			if err != nil {
				return err
			}
			return t.Publish(context.Background(), data, WithSecretKeyAndPeerId(ghostKey, ghostID))
		})
	}
	w.extraOps["batch2"] = func(it Item) {
		// one batch with a message for each topic (recipient sets of different sizes)
		if gs == nil {
			return // only the gossipsub router publishes batches
		}
		var b MessageBatch
		morePending = nil
		for k, ti := range []int64{0, 1} {
			topic := w.topicName(ti)
			data := w.mkData(int(it.a(0)) + k)
			tr := &trigger{msg: &pb.Message{Data: data}, topic: topic, local: true, author: w.n.h.id, mid: "-"}
			if k == 0 {
				pending = tr
			} else {
				morePending = append(morePending, tr)
			}
			s.do("AddToBatch "+topic, func() any {
				t, err := w.n.topic(topic)
				if err != nil {
					return err
				}
				return t.AddToBatch(context.Background(), &b, data)
			})
		}
		s.probe("batch_over_two_topics")
		s.do("PublishBatch", func() any { return w.n.ps.PublishBatch(&b) })
	}
	w.ghost = func(topic string, data []byte) *pb.Message {
		ghostSeq++
		sq := make([]byte, 8)
		sq[7] = byte(ghostSeq)
		sq[6] = byte(ghostSeq >> 8)
		return mkSignedMsg(ghostKey, ghostID, topic, data, sq)
	}
	w.afterItem = append(w.afterItem, func(it Item) {
		if gs != nil {
			// a join in between replaces the fanout by a mesh: the history of that fanout ends
			for t, f := range fan {
				if _, joined := gs.mesh[t]; joined {
					delete(fan, t)
					continue
				}
				// a member whose outbound stream closed leaves the fanout at once
				for id := range f.set {
					if _, conn := gs.peers[id]; !conn {
						delete(f.set, id)
					}
				}
			}
		}
		if pending == nil || pre == nil || s.stopped {
			return
		}
		post := w.snapshot()
		tr := *pending
		if tr.local && tr.mid == "" {
			// find the id of the local message through the trace
			for _, r := range rawBetween(w, pre, post) {
				_ = r
			}
			w.n.mu.Lock()
			for k := len(w.n.trace) - 1; k >= 0 && k >= len(w.n.trace)-50; k-- {
				e := w.n.trace[k].ev
				if e.GetType() == pb.TraceEvent_PUBLISH_MESSAGE {
					tr.mid = string(e.GetPublishMessage().GetMessageID())
					break
				}
			}
			w.n.mu.Unlock()
		}
		// the node must be in a position to accept the message: subscribed/relaying for remote ones
		if !tr.local && pre.mySubs[tr.topic] == 0 && pre.myRelays[tr.topic] == 0 {
			return
		}
		if !tr.local {
			// graylisted / unknown source: the RPC is ignored as a whole
			if scoring && !pre.direct[tr.source] && pre.scores[tr.source] < gs.graylistThreshold {
				return
			}
		}
		if tr.mid == "-" {
			tr.mid = "" // batch2: copies are recognised by their payload
		}
		judge(pre, post, tr, it.Op)
		if tr.local && !tr.only {
			checkFanoutKept(post, tr.topic, it.Op)
		}
		for _, x := range morePending {
			t2 := *x
			t2.mid = ""
			judge(pre, post, t2, it.Op)
		}
		morePending = nil
	})
	w.atEnd = append(w.atEnd, func() {
		s.nontrivial = nTrig > 0
		s.class = fmt.Sprintf("%s/%v/%x", router, p.kb("flood_publish"), shortHash([]byte(c13ClassStrAll(w))))
	})
	w.run()
	_ = sort.Strings
}
