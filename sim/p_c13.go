package pubsub

// C13 — all state attributable to a peer is reclaimed after it disconnects.
// W-NODE: random peer lifecycles (connection, identify, stream opens/closes/resets in any order,
// RPCs on whichever stream is alive), final disconnect, retention periods elapse, then a scan of
// every structure that can hold a peer ID.

import (
	"fmt"
	"reflect"
	"sort"
	"strings"
	"time"

	"github.com/libp2p/go-libp2p/core/peer"
)

func init() {
	registerProp("C13", genC13, map[string]func(*sim){"node": runC13})
}

func genC13(seed uint64, tier string) *Plan {
	r := newPrng(seed, "c13")
	p := &Plan{World: "node", Knobs: map[string]float64{}, SK: map[string]string{}}
	routers := []string{"gossipsub", "gossipsub", "gossipsub", "gossipsub", "floodsub", "randomsub"}
	p.SK["router"] = routers[r.intn(len(routers))]
	p.Knobs["ntopics"] = float64(r.rng(1, 2))
	p.Knobs["scoring"] = float64(b2i(r.chance(0.7)))
	p.Knobs["gater"] = float64(b2i(r.chance(0.4)))
	p.Knobs["px"] = float64(b2i(r.chance(0.3)))
	p.Knobs["hb_ms"] = float64([]int{700, 1000, 1500}[r.intn(3)])
	p.Knobs["prune_backoff_s"] = float64(r.rng(2, 30))
	p.Knobs["unsub_backoff_s"] = float64(r.rng(1, 10))
	p.Knobs["retain_score_s"] = float64(r.rng(1, 30))
	p.Knobs["seen_ttl_ms"] = float64(r.rng(2, 60) * 1000)
	p.Knobs["gater_retain_s"] = float64(r.rng(5, 40))
	p.Knobs["queue_size"] = float64([]int{1, 2, 4, 32}[r.intn(4)])
	genDegrees(r, p, 4)
	if r.chance(0.3) {
		p.Knobs["behaviour_weight"] = -1
	}
	if r.chance(0.4) {
		p.Knobs["idw_ttl"] = float64([]int{0, 1, 2}[r.intn(3)]) // heartbeats an IDONTWANT is remembered (0 is accepted)
	}
	if r.chance(0.3) {
		// the node's attempts to open a stream to a peer fail now and then (first opens and re-opens
		// after a stream loss alike)
		p.Knobs["p_open_fail"] = []float64{0.15, 0.4, 0.8}[r.intn(3)]
	}
	if r.chance(0.5) { // application validators that park, reject, ignore
		p.Knobs["nval_default"] = float64(r.rng(0, 2))
		p.Knobs["topic_val"] = float64(b2i(r.chance(0.6)))
		p.Knobs["v0_inline"] = float64(b2i(r.chance(0.4)))
		p.Knobs["v3_inline"] = float64(b2i(r.chance(0.3)))
		p.Knobs["v3_conc"] = float64([]int{0, 1, 1, 2}[r.intn(4)])
		p.Knobs["val_throttle"] = float64([]int{0, 1, 2}[r.intn(3)])
		p.Knobs["val_queue"] = float64([]int{0, 1, 2, 8}[r.intn(4)])
		p.Knobs["p_park"] = []float64{0, 0.3, 0.7, 1}[r.intn(4)]
		p.Knobs["p_reject"] = []float64{0, 0.2, 0.5}[r.intn(3)]
		p.Knobs["p_ignore"] = []float64{0, 0.2}[r.intn(2)]
		p.Knobs["workers"] = float64(r.rng(1, 2))
	}
	np := r.rng(1, 3)
	if tier == "thorough" {
		np = r.rng(1, 5)
	}
	add := func(op string, a ...int64) { p.Items = append(p.Items, Item{Op: op, A: a}) }
	if r.chance(0.85) {
		add("node-sub", int64(r.intn(2)))
	}
	n := r.rng(8, 30)
	if tier == "thorough" {
		n = r.rng(8, 70)
	}
	for i := 0; i < np; i++ {
		genBringUp(r, p, i, 2, 0.75)
	}
	ops := []struct {
		op string
		w  int
	}{{"identify", 3}, {"open", 8}, {"sub", 8}, {"unsub", 2}, {"graft", 8}, {"prune", 3}, {"pub", 6}, {"fwd", 2}, {"resend", 2}, {"ihave", 3},
		{"iwant", 2}, {"idontwant", 2}, {"reset-out", 3}, {"close-out", 2}, {"reset-in", 4}, {"close-in", 2}, {"disconnect", 2}, {"reconnect", 3},
		{"adv", 10}, {"advlong", 2}, {"release", 5}, {"reset-storm", 2}, {"node-sub", 2}, {"node-cancel", 1}, {"node-pub", 2}, {"stall", 1}, {"score", 3}, {"blacklist", 1}, {"open2", 1}, {"direct-add", 1}, {"direct-rm", 1}, {"extensions", 2}}
	tot := 0
	for _, o := range ops {
		tot += o.w
	}
	for k := 0; k < n; k++ {
		x := r.intn(tot)
		var op string
		for _, o := range ops {
			if x < o.w {
				op = o.op
				break
			}
			x -= o.w
		}
		i := int64(r.intn(np))
		switch op {
		case "release":
			add("release", int64(r.intn(4)))
		case "reset-storm":
			// the peer resets the node's outbound stream several times while staying connected
			// (dead-peer back-off: attempts 1..MaxBackoffAttempts, then the node gives up)
			for c := r.rng(2, 6); c > 0; c-- {
				add("reset-in", i)
				add("adv", int64(r.rng(900, 2500)))
			}
		case "adv":
			add("adv", int64(r.rng(1, 30)))
		case "advlong":
			add("adv", int64(r.rng(100, 4000)))
		case "sub", "unsub", "graft":
			add(op, i, int64(r.intn(2)))
		case "prune":
			add(op, i, int64(r.intn(2)), int64(r.intn(3)*r.rng(0, 20)))
		case "pub":
			add(op, i, int64(r.intn(2)), int64(r.rng(8, 200)))
		case "fwd":
			add(op, i, int64(r.intn(2)), int64(r.rng(8, 200)), int64(r.intn(np)))
		case "resend", "iwant", "idontwant":
			add(op, i, int64(r.intn(8)))
		case "ihave":
			add(op, i, int64(r.intn(2)), int64(r.rng(1, 4)))
		case "reconnect":
			add(op, i, int64(r.intn(2)))
		case "stall":
			add(op, i, int64(r.intn(2)))
		case "score":
			add(op, i, int64(r.rng(-40, 20))*1000)
		case "node-sub", "node-pub":
			if op == "node-pub" {
				add(op, int64(r.intn(2)), int64(r.rng(8, 100)))
			} else {
				add(op, int64(r.intn(2)))
			}
		case "node-cancel":
			add(op, int64(r.intn(3)))
		default:
			add(op, i)
		}
	}
	return p
}

// genBringUp appends the items that connect scripted peer i. With probability full the peer is
// brought up completely (connection, identify, both streams, subscription, sometimes GRAFT);
// otherwise a random prefix of that sequence is produced, so that partially established peers
// are explored as well.
func genBringUp(r *prng, p *Plan, i int, ntopics int, full float64) {
	add := func(op string, a ...int64) { p.Items = append(p.Items, Item{Op: op, A: a}) }
	version := int64(r.intn(6))
	if r.chance(0.5) {
		version = int64(r.intn(3)) // favour mesh-capable peers
	}
	ipg := int64(i)
	if r.chance(0.2) {
		ipg = 100 // several peers behind one address
	}
	add("peer", int64(i), version, int64(r.intn(2)), ipg)
	steps := []func(){
		func() { add("identify", int64(i)) },
		func() { add("adv", int64(r.rng(3, 8))) },
		func() { add("open", int64(i)) },
		func() { add("sub", int64(i), int64(r.intn(ntopics))) },
		func() {
			if r.chance(0.5) {
				add("graft", int64(i), int64(r.intn(ntopics)))
			}
		},
	}
	if r.chance(full) {
		if r.chance(0.3) { // inbound stream first
			steps[0], steps[2] = steps[2], steps[0]
		}
		for _, f := range steps {
			f()
		}
		return
	}
	n := r.intn(len(steps))
	for _, k := range r.perm(len(steps))[:n] {
		steps[k]()
	}
}

// genDegrees draws a degree parameter set accepted by GossipSubParams.validate.
func genDegrees(r *prng, p *Plan, maxD int) {
	if r.chance(0.06) { // bootstrapper setting
		p.Knobs["D"], p.Knobs["Dlo"], p.Knobs["Dhi"], p.Knobs["Dout"] = 0, 0, 0, 0
		p.Knobs["Dscore"] = 0
		p.Knobs["Dlazy"] = float64(r.rng(0, 3))
		return
	}
	D := r.rng(2, maxD)
	Dlo := r.rng(1, D)
	Dhi := D + r.rng(0, 3)
	doutMax := mini(Dlo-1, D/2-1)
	Dout := 0
	if doutMax > 0 {
		Dout = r.rng(0, doutMax)
	}
	p.Knobs["D"], p.Knobs["Dlo"], p.Knobs["Dhi"], p.Knobs["Dout"] = float64(D), float64(Dlo), float64(Dhi), float64(Dout)
	p.Knobs["Dscore"] = float64(r.rng(0, Dhi))
	p.Knobs["Dlazy"] = float64(r.rng(0, 3))
}

func mini(a, b int) int {
	if a < b {
		return a
	}
	return b
}

func maxi(a, b int) int {
	if a > b {
		return a
	}
	return b
}

func runC13(s *sim) {
	w := newNodeWorld(s)
	w.plan.Knobs["direct_ticks"] = 1 << 30 // never redial direct peers during the retention wait
	if err := w.startNode(); err != nil {
		s.violate("SIM", "setup", "SIM/setup", "node creation failed: %v", err)
		return
	}
	w.extraOps["extensions"] = func(it Item) {
		// v1.3 extension handshake control message (legal from a v1.3 peer, ignored state otherwise)
		if fp := w.fake(int(it.a(0))); fp != nil && fp.outAlive() {
			fp.send(rpcExtensions(false, false))
		}
	}
	// when did a peer lose its last pubsub stream (either direction)?
	trackStreams := func() {
		for _, fp := range w.fakes {
			alive := fp.outAlive() || fp.inAlive()
			if alive {
				delete(w.streamsGoneAt, fp.id)
			} else if _, ok := w.streamsGoneAt[fp.id]; !ok {
				w.streamsGoneAt[fp.id] = s.now()
			}
		}
	}
	w.afterItem = append(w.afterItem, func(it Item) { trackStreams() })
	// probes
	w.afterItem = append(w.afterItem, func(it Item) {
		switch it.Op {
		case "graft":
			if fp := w.fake(int(it.a(0))); fp != nil && fp.outAlive() {
				if gs := w.n.gs(); gs != nil {
					if _, ok := gs.peers[fp.id]; !ok {
						s.probe("graft_without_outbound_stream")
					}
				}
			}
		}
	})
	w.atEnd = append(w.atEnd, func() {
		// final disconnect of everything, each peer as its own step
		var targets []*fakePeer
		for _, fp := range w.allFakes() {
			targets = append(targets, fp)
			if gs := w.n.gs(); gs != nil {
				if gs.gate != nil {
					if _, ok := gs.gate.peerStats[fp.id]; ok {
						s.probe("peer_in_gater_stats")
					}
				}
				if gs.score != nil && gs.score.Score(fp.id) < 0 {
					s.probe("negative_score_at_disconnect")
				}
				if _, ok := gs.backoff[w.topicName(0)][fp.id]; ok {
					s.probe("backoff_at_disconnect")
				}
				if fp.outAlive() && !fp.inAlive() {
					s.probe("inbound_outlives_outbound")
				}
				if !fp.outAlive() && fp.inAlive() {
					s.probe("outbound_outlives_inbound")
				}
			}
			inMesh := false
			if gs := w.n.gs(); gs != nil {
				for _, m := range gs.mesh {
					if _, ok := m[fp.id]; ok {
						inMesh = true
					}
				}
			}
			if inMesh {
				s.probe("disconnect_while_in_mesh")
			}
			if fp.connected() {
				w.lastDisconnect[fp.id] = s.now()
				fp.stall(false)
				fp.disconnect()
				s.settle()
				s.run(s.now()) // execute the per-stream death events
			}
			trackStreams()
		}
		// validations still parked when the peers left complete now (late verdicts)
		if g := s.parkedGates(); len(g) > 0 {
			s.probe("validation_outlives_peer")
			// release until nothing is parked any more (a released validation may enter the next validator)
			for round := 0; round < 8192; round++ {
				g = s.parkedGates()
				if len(g) == 0 {
					break
				}
				for _, x := range g {
					s.release(x, 0)
					s.settle()
				}
			}
		}
		// retention: longest configured period + sweeps
		hb := time.Duration(w.plan.ki("hb_ms", 1000)) * time.Millisecond
		wait := 12 * time.Minute
		for _, d := range []time.Duration{
			time.Duration(w.plan.ki("prune_backoff_s", 60))*time.Second + 17*hb + 3*time.Second,
			time.Duration(w.plan.ki("retain_score_s", 10))*time.Second + 3*time.Second,
			time.Duration(w.plan.ki("seen_ttl_ms", 120000))*time.Millisecond + 2*time.Minute,
			time.Duration(w.plan.ki("gater_retain_s", 20))*time.Second + 3*time.Second,
		} {
			if d > wait {
				wait = d
			}
		}
		s.advance(wait)
		if s.stopped {
			return
		}
		s.settle()
		for _, fp := range targets {
			leaks := leakScan(w, fp.id)
			for _, l := range leaks {
				s.violate("C13", "leak", fmt.Sprintf("C13/leak/%s/%s", w.n.router, l.where), "peer %s (version %d) still present in %s after disconnect + %v: %s", fp.name, fp.version, l.where, wait, l.detail)
			}
		}
		s.nontrivial = len(targets) > 0 && w.n != nil
		s.class = c13Class(w)
	})
	w.run()
}

func c13Class(w *nodeWorld) string {
	// shape: router + per peer version + sequence of op kinds (compressed)
	var b strings.Builder
	b.WriteString(w.n.router)
	for _, it := range w.plan.Items {
		if it.Op == "adv" {
			continue
		}
		b.WriteByte(' ')
		b.WriteString(it.Op)
		if len(it.A) > 0 && it.Op != "node-sub" && it.Op != "node-pub" && it.Op != "node-cancel" {
			fmt.Fprintf(&b, "%d", it.A[0])
		}
	}
	return fmt.Sprintf("%x", shortHash([]byte(b.String())))
}

type leak struct{ where, detail string }

// leakScan looks for pid in every per-peer structure of the node. Called at quiescence.
func leakScan(w *nodeWorld, pid peer.ID) []leak {
	var out []leak
	add := func(where, detail string) { out = append(out, leak{where, detail}) }
	p := w.n.ps
	if _, ok := p.peers[pid]; ok {
		add("pubsub.peers", "outbound queue still registered")
	}
	for t, m := range p.topics {
		if _, ok := m[pid]; ok {
			add("pubsub.topics", "topic "+t)
		}
	}
	p.inboundStreamsMx.Lock()
	if _, ok := p.inboundStreams[pid]; ok {
		add("pubsub.inboundStreams", "")
	}
	p.inboundStreamsMx.Unlock()
	p.newPeersMx.Lock()
	if _, ok := p.newPeersPend[pid]; ok {
		add("pubsub.newPeersPend", "")
	}
	p.newPeersMx.Unlock()
	p.peerDeadMx.Lock()
	if _, ok := p.peerDeadPend[pid]; ok {
		add("pubsub.peerDeadPend", "")
	}
	p.peerDeadMx.Unlock()
	p.deadPeerBackoff.mu.Lock()
	if _, ok := p.deadPeerBackoff.info[pid]; ok {
		add("pubsub.deadPeerBackoff", "")
	}
	p.deadPeerBackoff.mu.Unlock()
	switch rt := p.rt.(type) {
	case *FloodSubRouter:
		_ = rt
	case *RandomSubRouter:
		if _, ok := rt.peers[pid]; ok {
			add("randomsub.peers", "")
		}
	case *GossipSubRouter:
		gs := rt
		if _, ok := gs.peers[pid]; ok {
			add("router.peers", "")
		}
		for t, m := range gs.mesh {
			if _, ok := m[pid]; ok {
				add("router.mesh", "topic "+t)
			}
		}
		for t, m := range gs.fanout {
			if _, ok := m[pid]; ok {
				add("router.fanout", "topic "+t)
			}
		}
		if _, ok := gs.gossip[pid]; ok {
			add("router.gossip", "")
		}
		if _, ok := gs.control[pid]; ok {
			add("router.control", "")
		}
		if _, ok := gs.outbound[pid]; ok {
			add("router.outbound", "")
		}
		if _, ok := gs.unwanted[pid]; ok {
			add("router.unwanted", "")
		}
		for t, m := range gs.backoff {
			if _, ok := m[pid]; ok {
				add("router.backoff", "topic "+t)
			}
		}
		if _, ok := gs.peerhave[pid]; ok {
			add("router.peerhave", "")
		}
		// (read through reflection: the scan must not stop compiling when the shape of this internal
		// table changes)
		if tx := reflect.ValueOf(gs.mcache).Elem().FieldByName("peertx"); tx.IsValid() && tx.Kind() == reflect.Map {
			for _, k := range tx.MapKeys() {
				if v := tx.MapIndex(k); v.Kind() == reflect.Map && v.Type().Key() == reflect.TypeOf(pid) && v.MapIndex(reflect.ValueOf(pid)).IsValid() {
					add("router.mcache.peertx", fmt.Sprintf("message %x", shortHash([]byte(k.String()))))
				}
			}
		}
		if _, ok := gs.iasked[pid]; ok {
			add("router.iasked", "")
		}
		if _, ok := gs.peerdontwant[pid]; ok {
			add("router.peerdontwant", "")
		}
		if _, ok := gs.extensions.peerExtensions[pid]; ok {
			add("extensions.peerExtensions", "")
		}
		if _, ok := gs.extensions.sentExtensions[pid]; ok {
			add("extensions.sentExtensions", "")
		}
		if gs.score != nil {
			gs.score.Lock()
			if _, ok := gs.score.peerStats[pid]; ok {
				add("score.peerStats", "")
			}
			for ip, m := range gs.score.peerIPs {
				if _, ok := m[pid]; ok {
					add("score.peerIPs", ip)
				}
			}
			for id, rec := range gs.score.deliveries.records {
				if _, ok := rec.peers[pid]; ok {
					add("score.deliveries", fmt.Sprintf("record %x", shortHash([]byte(id))))
					break
				}
			}
			gs.score.Unlock()
		}
		if gs.gate != nil {
			gs.gate.Lock()
			if _, ok := gs.gate.peerStats[pid]; ok {
				cause := ""
				// cause classes (distinct signatures so that a listed finding does not hide another cause)
				var goneAt time.Duration
				w.n.mu.Lock()
				for _, r := range w.n.raw {
					if r.kind == "closedout" && r.p == pid {
						goneAt = r.t
					}
				}
				late := false
				for _, r := range w.n.raw {
					if (r.kind == "deliver" || r.kind == "reject" || r.kind == "duplicate") && r.from == pid && r.t >= w.streamsGoneAt[pid] && w.streamsGoneAt[pid] > 0 {
						late = true
					}
				}
				w.n.mu.Unlock()
				_ = goneAt
				shared := false
				if me := w.fakeByID(pid); me != nil {
					for _, o := range w.fakes {
						if o != me && o.h.addr.Equal(me.h.addr) {
							shared = true
						}
					}
				}
				switch {
				case late:
					cause = "/verdict-after-streams-closed"
				case shared:
					cause = "/shared-ip"
				}
				add("gater.peerStats"+cause, "")
			}
			gs.gate.Unlock()
		}
		if gs.gossipTracer != nil {
			gs.gossipTracer.Lock()
			if _, ok := gs.gossipTracer.peerPromises[pid]; ok {
				add("gossipTracer.peerPromises", "")
			}
			for _, m := range gs.gossipTracer.promises {
				if _, ok := m[pid]; ok {
					add("gossipTracer.promises", "")
					break
				}
			}
			gs.gossipTracer.Unlock()
		}
		if gs.tagTracer != nil {
			gs.tagTracer.Lock()
			for _, m := range gs.tagTracer.nearFirst {
				if _, ok := m[pid]; ok {
					add("tagTracer.nearFirst", "")
					break
				}
			}
			gs.tagTracer.Unlock()
		}
		_, isDirect := gs.direct[pid]
		var prot []string
		for _, t := range w.n.h.cm.protections(pid) {
			if !strings.HasPrefix(t, "pubsub:") {
				continue
			}
			if t == "pubsub:<direct>" && isDirect {
				continue // configuration, not state acquired from the peer
			}
			prot = append(prot, t)
		}
		sort.Strings(prot)
		if len(prot) > 0 {
			kind := "mesh"
			if prot[0] == "pubsub:<direct>" {
				kind = "direct"
			}
			add("connmgr.protection."+kind, strings.Join(prot, ","))
		}
	}
	sort.Slice(out, func(i, j int) bool {
		if out[i].where != out[j].where {
			return out[i].where < out[j].where
		}
		return out[i].detail < out[j].detail
	})
	return out
}
