package pubsub

// Scripted wire-level peers for W-NODE: simulator actors that speak the pubsub wire protocol
// over the simulated streams. They record everything the node writes to them, frame by frame,
// with virtual timestamps, and send whatever the plan says.

import (
	"encoding/binary"
	"fmt"
	"time"

	pb "github.com/libp2p/go-libp2p-pubsub/pb"
	"github.com/libp2p/go-libp2p/core/crypto"
	"github.com/libp2p/go-libp2p/core/network"
	"github.com/libp2p/go-libp2p/core/peer"
	"github.com/libp2p/go-libp2p/core/protocol"
)

type wireObs struct {
	t      time.Duration
	step   int
	rpc    *pb.RPC
	size   int // frame payload size
	stream int // which outbound stream of the node (generation)
	raw    []byte
}

type fakePeer struct {
	s    *sim
	h    *simHost
	name string
	id   peer.ID
	priv crypto.PrivKey
	node *simNode
	dir  network.Direction // direction of the connection from the node's point of view

	conn *simConn // fake's endpoint of the connection
	// the node's outbound stream (node -> fake); fake's endpoint
	in            *simStream
	inGen         int
	inOpened      time.Duration
	helloExpected bool
	// fake's outbound stream (fake -> node); fake's endpoint
	out *simStream

	version     int
	everStalled bool
	c11cursor   int
	c03cursor   int
	disturbed   bool // its connection or the node's outbound stream to it was ever torn down
	recv        []wireObs
	rbuf        []byte
	outBytes    []byte // every byte sent on the current outbound stream (framing model for C12)
	badWire     int
	seqno       uint64

	onFrame func(o *wireObs) // oracle callback at the quiescence in which the frame was written
}

func (s *sim) newFakePeer(name string, priv crypto.PrivKey, ip string, protos []protocol.ID, node *simNode) *fakePeer {
	h := s.newHost(name, priv, ip)
	h.fake = true
	h.fakeProtos = protos
	fp := &fakePeer{s: s, h: h, name: name, id: h.id, priv: priv, node: node}
	h.fakePeer = fp
	return fp
}

// fakeAccept: the node opened a stream to this fake peer; start recording.
func (h *simHost) fakeAccept(remote *simStream) {
	fp := h.fakePeer
	if fp == nil {
		return
	}
	fp.in = remote
	fp.inGen++
	fp.inOpened = fp.s.now()
	// will the hello packet be non-empty (and therefore written)? The node's event loop builds it
	// from its subscriptions and relays when it handles the new stream, later in this same step.
	fp.helloExpected = false
	if fp.node != nil && fp.node.ps != nil {
		ps := fp.node.ps
		fp.helloExpected = len(ps.myRelays) > 0
		for t := range ps.mySubs {
			// (subscriptions to a topic joined with FanoutOnly() are not announced)
			if tp := ps.myTopics[t]; tp == nil || !tp.fanoutOnly {
				fp.helloExpected = true
			}
		}
		if gs, ok := ps.rt.(*GossipSubRouter); ok && gs.feature(GossipSubFeatureExtensions, remote.proto) &&
			(gs.extensions.myExtensions.TestExtension || gs.extensions.myExtensions.PartialMessages) {
			fp.helloExpected = true
		}
	}
	fp.rbuf = nil
	gen := fp.inGen
	remote.rd.sink = func(t time.Duration, b []byte) { fp.onBytes(gen, t, b) }
	fp.s.logf("FAKE %s accepts stream %s proto=%s", fp.name, remote.name, remote.proto)
}

func (fp *fakePeer) onBytes(gen int, t time.Duration, b []byte) {
	fp.rbuf = append(fp.rbuf, b...)
	for {
		l, n := binary.Uvarint(fp.rbuf)
		if n == 0 {
			return // need more
		}
		if n < 0 {
			fp.badWire++
			fp.s.violate("SIM", "wire", "SIM/wire/bad-varint", "node wrote an undecodable length prefix to %s", fp.name)
			fp.rbuf = nil
			return
		}
		if uint64(len(fp.rbuf)-n) < l {
			return
		}
		payload := fp.rbuf[n : n+int(l)]
		fp.rbuf = fp.rbuf[n+int(l):]
		rpc := new(pb.RPC)
		if err := rpc.Unmarshal(payload); err != nil {
			fp.badWire++
			fp.s.violate("SIM", "wire", "SIM/wire/undecodable", "node wrote an undecodable frame to %s: %v", fp.name, err)
			continue
		}
		o := wireObs{t: t, step: fp.s.steps, rpc: rpc, size: int(l), stream: gen, raw: append([]byte(nil), payload...)}
		fp.recv = append(fp.recv, o)
		if fp.onFrame != nil {
			fp.onFrame(&fp.recv[len(fp.recv)-1])
		}
		if fp.node != nil && fp.node.onWire != nil {
			fp.node.onWire(fp, &fp.recv[len(fp.recv)-1])
		}
	}
}

// connectTo establishes the connection between the fake peer and its node. dir is the
// direction as seen by the node (DirInbound: the fake dialled the node).
func (fp *fakePeer) connect(dir network.Direction) {
	s := fp.s
	fp.dir = dir
	if dir == network.DirInbound {
		c := s.connect(fp.h, fp.node.h, false)
		fp.conn = c
	} else {
		c := s.connect(fp.node.h, fp.h, false)
		fp.conn = c.peer
	}
}

func (fp *fakePeer) connected() bool {
	return fp.conn != nil && !fp.conn.IsClosed()
}

// identify: the node learns the fake's protocols (and will open its outbound stream).
func (fp *fakePeer) identify() { fp.s.identify(fp.node.h, fp.h) }

// openStream: the fake opens its outbound pubsub stream to the node with the given protocol.
func (fp *fakePeer) openStream(proto protocol.ID) bool {
	s := fp.s
	if !fp.connected() {
		return false
	}
	hd := fp.node.h.handlerFor(proto)
	if hd == nil {
		s.logf("FAKE %s open %s: node has no handler", fp.name, proto)
		return false
	}
	local, remote := s.newStreamPair(fp.conn, proto)
	fp.out = local
	fp.outBytes = nil
	s.logf("FAKE %s opens stream %s proto=%s", fp.name, local.name, proto)
	go hd(remote)
	return true
}

func frame(payload []byte) []byte {
	buf := make([]byte, binary.MaxVarintLen64+len(payload))
	n := binary.PutUvarint(buf, uint64(len(payload)))
	copy(buf[n:], payload)
	return buf[:n+len(payload)]
}

// send delivers one RPC on the fake's outbound stream (one input to the node).
func (fp *fakePeer) send(rpc *pb.RPC) bool {
	b, err := rpc.Marshal()
	if err != nil {
		panic(err)
	}
	return fp.sendRaw(frame(b))
}

func (fp *fakePeer) sendRaw(b []byte) bool {
	if fp.out == nil || fp.out.peer == nil {
		return false
	}
	np := fp.out.peer // node's endpoint
	if np.rd.rerrSet() {
		return false
	}
	fp.s.logf("FAKE %s sends %d bytes %x", fp.name, len(b), shortHash(b))
	fp.outBytes = append(fp.outBytes, b...)
	np.rd.deliver(b)
	return true
}

// outAlive reports whether the node still reads the fake's outbound stream.
func (fp *fakePeer) outAlive() bool {
	return fp.out != nil && fp.out.peer != nil && !fp.out.peer.rd.rerrSet() && !fp.out.peer.localDead()
}

func (st *simStream) localDead() bool {
	st.mu.Lock()
	defer st.mu.Unlock()
	return st.localShut
}

// inAlive reports whether the node's outbound stream to the fake is still writable.
func (fp *fakePeer) inAlive() bool {
	if fp.in == nil || fp.in.peer == nil {
		return false
	}
	w := fp.in.peer.wr
	w.mu.Lock()
	defer w.mu.Unlock()
	return w.werr == nil && !w.wclosed
}

// closeOut: graceful close of the fake's outbound stream (node's reader sees EOF).
func (fp *fakePeer) closeOut() {
	if fp.out != nil && fp.out.peer != nil {
		fp.s.logf("FAKE %s closes its outbound stream", fp.name)
		fp.out.peer.rd.setReadEOF()
	}
}

// resetOut: the fake resets its outbound stream (node's reader sees a reset).
func (fp *fakePeer) resetOut() {
	if fp.out != nil && fp.out.peer != nil {
		fp.s.logf("FAKE %s resets its outbound stream", fp.name)
		fp.out.peer.killEnd(network.ErrReset)
		fp.out.peer.conn.removeStream(fp.out.peer)
		fp.conn.removeStream(fp.out)
	}
}

// resetIn: the fake resets the node's outbound stream (handlePeerDead fires).
func (fp *fakePeer) resetIn() {
	if fp.in != nil && fp.in.peer != nil {
		fp.s.logf("FAKE %s resets the node's outbound stream", fp.name)
		fp.in.peer.killEnd(network.ErrReset)
		fp.in.peer.conn.removeStream(fp.in.peer)
		fp.conn.removeStream(fp.in)
	}
}

// closeIn: the fake closes its side of the node's outbound stream (EOF on the dead-peer read).
func (fp *fakePeer) closeIn() {
	if fp.in != nil && fp.in.peer != nil {
		fp.s.logf("FAKE %s closes the node's outbound stream", fp.name)
		fp.in.peer.rd.setReadEOF()
	}
}

// stall: the fake stops reading the node's outbound stream (node's writer blocks).
func (fp *fakePeer) stall(v bool) {
	if fp.in != nil && fp.in.peer != nil {
		fp.in.peer.wr.setStalled(v)
	}
}

// inGenFrames: frames received on the current generation of the node's outbound stream.
func (fp *fakePeer) inGenFrames() int {
	n := 0
	for _, o := range fp.recv {
		if o.stream == fp.inGen {
			n++
		}
	}
	return n
}

// idx: the plan index of this scripted peer (its name is F<idx>).
func (fp *fakePeer) idx() int {
	n := 0
	fmt.Sscanf(fp.name, "F%d", &n)
	return n
}

func (fp *fakePeer) stalledNow() bool {
	if fp.in == nil || fp.in.peer == nil {
		return false
	}
	w := fp.in.peer.wr
	w.mu.Lock()
	defer w.mu.Unlock()
	return w.stalled
}

func (fp *fakePeer) disconnect() {
	if fp.conn != nil && !fp.conn.IsClosed() {
		fp.s.closeConn(fp.conn)
	}
}

// ---------------------------------------------------------------------------------------------
// message construction

func (fp *fakePeer) nextSeqno() []byte {
	fp.seqno++
	b := make([]byte, 8)
	binary.BigEndian.PutUint64(b, fp.seqno)
	return b
}

// signedMsg builds a validly signed message authored by this peer.
func (fp *fakePeer) signedMsg(topic string, data []byte) *pb.Message {
	return mkSignedMsg(fp.priv, fp.id, topic, data, fp.nextSeqno())
}

func mkSignedMsg(priv crypto.PrivKey, id peer.ID, topic string, data []byte, seqno []byte) *pb.Message {
	m := &pb.Message{Data: data, Topic: &topic, From: []byte(id), Seqno: seqno}
	if err := signMessage(id, priv, m); err != nil {
		panic(err)
	}
	return m
}

func mkUnsignedMsg(id peer.ID, topic string, data []byte, seqno []byte) *pb.Message {
	m := &pb.Message{Data: data, Topic: &topic}
	if id != "" {
		m.From = []byte(id)
		m.Seqno = seqno
	}
	return m
}

func rpcSub(topic string, sub bool) *pb.RPC {
	return &pb.RPC{Subscriptions: []*pb.RPC_SubOpts{{Topicid: &topic, Subscribe: &sub}}}
}
func rpcPub(msgs ...*pb.Message) *pb.RPC { return &pb.RPC{Publish: msgs} }
func rpcGraft(topics ...string) *pb.RPC {
	c := &pb.ControlMessage{}
	for i := range topics {
		c.Graft = append(c.Graft, &pb.ControlGraft{TopicID: &topics[i]})
	}
	return &pb.RPC{Control: c}
}
func rpcPrune(topic string, backoff uint64, px []*pb.PeerInfo) *pb.RPC {
	p := &pb.ControlPrune{TopicID: &topic, Peers: px}
	if backoff > 0 {
		p.Backoff = &backoff
	}
	return &pb.RPC{Control: &pb.ControlMessage{Prune: []*pb.ControlPrune{p}}}
}
func rpcIHave(topic string, ids ...string) *pb.RPC {
	return &pb.RPC{Control: &pb.ControlMessage{Ihave: []*pb.ControlIHave{{TopicID: &topic, MessageIDs: ids}}}}
}
func rpcIWant(ids ...string) *pb.RPC {
	return &pb.RPC{Control: &pb.ControlMessage{Iwant: []*pb.ControlIWant{{MessageIDs: ids}}}}
}
func rpcIDontWant(ids ...string) *pb.RPC {
	return &pb.RPC{Control: &pb.ControlMessage{Idontwant: []*pb.ControlIDontWant{{MessageIDs: ids}}}}
}

func rpcExtensions(partial, test bool) *pb.RPC {
	e := &pb.ControlExtensions{}
	if partial {
		e.PartialMessages = &partial
	}
	if test {
		e.TestExtension = &test
	}
	return &pb.RPC{Control: &pb.ControlMessage{Extensions: e}}
}

func midOf(m *pb.Message) string { return DefaultMsgIdFn(m) }

func descRPC(r *pb.RPC) string {
	s := ""
	for _, su := range r.GetSubscriptions() {
		s += fmt.Sprintf(" sub(%s,%v)", su.GetTopicid(), su.GetSubscribe())
	}
	for _, m := range r.GetPublish() {
		s += fmt.Sprintf(" msg(%s,%dB)", m.GetTopic(), len(m.GetData()))
	}
	if c := r.GetControl(); c != nil {
		for _, g := range c.GetGraft() {
			s += " graft(" + g.GetTopicID() + ")"
		}
		for _, p := range c.GetPrune() {
			s += fmt.Sprintf(" prune(%s,bo=%d,px=%d)", p.GetTopicID(), p.GetBackoff(), len(p.GetPeers()))
		}
		for _, h := range c.GetIhave() {
			s += fmt.Sprintf(" ihave(%s,%d)", h.GetTopicID(), len(h.GetMessageIDs()))
		}
		for _, w := range c.GetIwant() {
			s += fmt.Sprintf(" iwant(%d)", len(w.GetMessageIDs()))
		}
		for _, d := range c.GetIdontwant() {
			s += fmt.Sprintf(" idontwant(%d)", len(d.GetMessageIDs()))
		}
		if c.GetExtensions() != nil {
			s += " ext"
		}
	}
	return s
}
