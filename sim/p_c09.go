package pubsub

// C09 — score thresholds gate what a peer may send and receive.
// W-NODE, gossipsub, scoring with only the application component weighted (scores are exactly
// what the plan says, including exactly on each threshold), PX on, optional gater under
// validation-queue overflow.

import (
	"fmt"
	"time"

	pb "github.com/libp2p/go-libp2p-pubsub/pb"
	"github.com/libp2p/go-libp2p/core/peer"
	"github.com/libp2p/go-libp2p/core/record"
)

func init() {
	registerProp("C09", genC09, map[string]func(*sim){"node": runC09})
}

func genC09(seed uint64, tier string) *Plan {
	r := newPrng(seed, "c09")
	p := &Plan{World: "node", Knobs: map[string]float64{}, SK: map[string]string{"router": "gossipsub"}}
	p.Knobs["ntopics"] = 2
	p.Knobs["scoring"] = 1
	p.Knobs["px"] = 1
	p.Knobs["hb_ms"] = 1000
	g := -r.rng(0, 4)
	pu := g - r.rng(0, 4)
	gr := pu - r.rng(0, 4)
	p.Knobs["gossip_thr"], p.Knobs["publish_thr"], p.Knobs["graylist_thr"] = float64(g), float64(pu), float64(gr)
	p.Knobs["acceptpx_thr"] = float64(r.rng(0, 4))
	p.Knobs["oppgraft_thr"] = float64(r.rng(0, 3))
	p.Knobs["prune_backoff_s"] = float64(r.rng(2, 8))
	p.Knobs["flood_publish"] = float64(r.intn(2))
	p.Knobs["history_len"] = 6
	p.Knobs["history_gossip"] = 4
	p.Knobs["direct_ticks"] = 1 << 30
	p.Knobs["seen_ttl_ms"] = 600000
	p.Knobs["connectors"] = 1
	if r.chance(0.35) {
		p.Knobs["gater"] = 1
		p.Knobs["gater_threshold"] = 0.0001
		p.Knobs["val_queue"] = 1
		p.Knobs["nval_default"] = 1
		p.Knobs["v0_inline"] = 1
		p.Knobs["p_park"] = 0.7
		p.Knobs["p_reject"] = 0.5
		p.Knobs["workers"] = 1
	}
	genDegrees(r, p, 4)
	add := func(op string, a ...int64) { p.Items = append(p.Items, Item{Op: op, A: a}) }
	add("node-sub", 0)
	two := r.chance(0.35)
	if two {
		// two joined topics and a behaviour penalty: a GRAFT refused inside the back-off is penalised,
		// which can turn the sender's score negative in the middle of one RPC
		add("node-sub", 1)
		p.Knobs["behaviour_weight"] = []float64{-1, -10, -40}[r.intn(3)]
		p.Knobs["behaviour_threshold"] = 0
		p.Knobs["behaviour_decay"] = 0.9
	}
	np := r.rng(3, 8)
	thr := []int{g, pu, gr, 0}
	scoreNear := func() int64 {
		base := thr[r.intn(len(thr))]
		return int64(base*1000 + []int{-1000, -1, 0, 0, 1, 1000}[r.intn(6)])
	}
	for i := 0; i < np; i++ {
		add("peer", int64(i), int64(r.intn(3)), int64(r.intn(2)), int64(i))
		add("identify", int64(i))
		add("adv", 4)
		add("open", int64(i))
		add("sub", int64(i), 0)
		if r.chance(0.5) {
			add("sub", int64(i), 1)
		}
		if r.chance(0.6) {
			add("score", int64(i), scoreNear())
		}
		if r.chance(0.12) {
			add("direct-add", int64(i))
		}
	}
	add("adv", int64(r.rng(300, 2500)))
	n := r.rng(12, 40)
	if tier == "thorough" {
		n = r.rng(12, 80)
	}
	for k := 0; k < n; k++ {
		i := int64(r.intn(np))
		t := int64(r.intn(2))
		x := r.intn(100)
		switch {
		case x < 14:
			add("score", i, scoreNear())
		case x < 26:
			add("pub", i, t, int64(r.rng(8, 80)))
		case x < 34:
			add("ihave", i, 0, int64(r.rng(1, 3)))
		case x < 44:
			add("iwant", i, int64(r.intn(6)))
		case x < 50:
			add("graft", i, 0)
		case x < 54:
			if two {
				// the peer is pruned from one topic (back-off) and then GRAFTs both topics in one RPC
				first := int64(r.intn(2))
				add("sub", i, 1)
				add("graftraw", i, first)
				add("adv", int64(r.rng(10, 900)))
				add("prune", i, first, int64(r.intn(3)), 0)
				add("adv", int64(r.rng(10, 900)))
				add("graft2", i, first)
			} else {
				add("graft", i, 0)
			}
		case x < 62:
			add("prunepx", i, 0, int64(r.intn(5)), int64(r.intn(3))) // [peer, topic, px kind, backoff]
		case x < 66:
			add("pubgraft", i, 0, int64(r.rng(8, 60)))
		case x < 74:
			add("node-pub", t, int64(r.rng(8, 80)))
		case x < 86:
			add("adv", int64(r.rng(400, 2500)))
		case x < 90:
			add("release", int64(r.intn(4)))
		case x < 93:
			add("direct-add", i)
		case x < 95:
			add("direct-rm", i)
		case x < 96:
			add("node-cancel", int64(r.intn(2)))
			add("node-sub", 0)
		case x < 98:
			// join the second topic, for which there may be a fanout from earlier publications
			add("node-sub", 1)
		default:
			add("resend", i, int64(r.intn(5)))
		}
	}
	add("adv", int64(r.rng(1000, 2500)))
	return p
}

func runC09(s *sim) {
	w := newNodeWorld(s)
	p := w.plan
	if err := w.startNode(); err != nil {
		s.violate("SIM", "setup", "SIM/setup", "node creation failed: %v", err)
		return
	}
	gs := w.n.gs()
	nJudged := 0
	name := func(id peer.ID) string {
		if fp := w.fakeByID(id); fp != nil {
			return fp.name
		}
		return shortPeer(id)
	}
	// PX bookkeeping: identities advertised through PX and whether following them is legal
	pxKey := func(i int) (peer.ID, []byte, []byte) { // id, valid record for id, valid record for another id
		k := genKey(newPrng(p.Seed, fmt.Sprintf("px%d", i)), 0)
		id, _ := peer.IDFromPrivateKey(k)
		rec := peer.NewPeerRecord()
		rec.PeerID = id
		rec.Seq = 1
		env, _ := record.Seal(rec, k)
		eb, _ := env.Marshal()
		k2 := genKey(newPrng(p.Seed, fmt.Sprintf("pxo%d", i)), 0)
		id2, _ := peer.IDFromPrivateKey(k2)
		rec2 := peer.NewPeerRecord()
		rec2.PeerID = id2
		rec2.Seq = 1
		env2, _ := record.Seal(rec2, k2)
		eb2, _ := env2.Marshal()
		return id, eb, eb2
	}
	legalPX := map[peer.ID]bool{}
	connMark := 0
	pxN := 0
	var pre *snapshot
	var thrott bool
	w.n.onRaw = func(r *rawRec) {
		if r.kind == "throttle" {
			thrott = true
		}
	}
	delivMark := map[int]int{}
	newDeliveries := func(from peer.ID) int {
		n := 0
		for _, ss := range w.n.subs {
			ms := ss.messages()
			for k := delivMark[ss.id]; k < len(ms); k++ {
				if ms[k].ReceivedFrom == from {
					n++
				}
			}
		}
		return n
	}
	w.beforeItem = append(w.beforeItem, func(it Item) {
		pre = w.snapshot()
		thrott = false
		for _, ss := range w.n.subs {
			delivMark[ss.id] = len(ss.messages())
		}
		w.n.h.mu.Lock()
		connMark = len(w.n.h.connects)
		w.n.h.mu.Unlock()
	})
	w.extraOps["prunepx"] = func(it Item) {
		fp := w.fake(int(it.a(0)))
		if fp == nil || !fp.outAlive() {
			return
		}
		pxN++
		id, good, other := pxKey(pxN)
		var pi *pb.PeerInfo
		legalRec := false
		switch it.a(2) {
		case 0:
			pi = &pb.PeerInfo{PeerID: []byte(id), SignedPeerRecord: good}
			legalRec = true
		case 1:
			pi = &pb.PeerInfo{PeerID: []byte(id), SignedPeerRecord: other} // valid record for a different peer id
			s.probe("px_record_for_different_peer")
		case 2:
			pi = &pb.PeerInfo{PeerID: []byte(id), SignedPeerRecord: []byte{1, 2, 3, 4}}
		case 3:
			pi = &pb.PeerInfo{PeerID: []byte(id)} // no record: legal to follow
			legalRec = true
		default:
			pi = nil
		}
		var px []*pb.PeerInfo
		if pi != nil {
			px = []*pb.PeerInfo{pi}
		}
		sc := pre.scores[fp.id]
		accepted := pre.direct[fp.id] || sc >= gs.graylistThreshold
		_, joined := pre.mesh[w.topicName(it.a(1))]
		if accepted && joined && sc >= gs.acceptPXThreshold && legalRec && pi != nil {
			legalPX[id] = true
		}
		if sc == gs.acceptPXThreshold {
			s.probe("score_exactly_at_acceptpx")
		}
		fp.send(rpcPrune(w.topicName(it.a(1)), uint64(it.a(3)), px))
	}
	w.extraOps["graftraw"] = func(it Item) { // [peer, topic]: a GRAFT that is not judged by the per-item rules (they speak of t0)
		if fp := w.fake(int(it.a(0))); fp != nil && fp.outAlive() {
			fp.send(rpcGraft(w.topicName(it.a(1))))
		}
	}
	w.extraOps["graft2"] = func(it Item) { // [peer, first topic]: GRAFT for both topics in one RPC
		fp := w.fake(int(it.a(0)))
		if fp == nil || !fp.outAlive() {
			return
		}
		a, b := w.topicName(it.a(1)), w.topicName(1-it.a(1))
		fp.send(rpcGraft(a, b))
	}
	w.extraOps["pubgraft"] = func(it Item) {
		fp := w.fake(int(it.a(0)))
		if fp == nil || !fp.outAlive() {
			return
		}
		topic := w.topicName(it.a(1))
		m := fp.signedMsg(topic, w.mkData(int(it.a(2))))
		w.sent[midOf(m)] = m
		w.noteSentBy(fp, m)
		rpc := rpcPub(m)
		rpc.Control = &pb.ControlMessage{Graft: []*pb.ControlGraft{{TopicID: &topic}}}
		fp.send(rpc)
	}
	framesTo := func(post *snapshot, id peer.ID) []wireObs {
		i, ok := w.fakeIndex(id)
		if !ok {
			return nil
		}
		return framesBetween(w, i, pre, post)
	}
	reachable := func(post *snapshot, id peer.ID) bool {
		i, ok := w.fakeIndex(id)
		if !ok || !pre.inAlive[i] || !post.inAlive[i] || pre.stalled[i] {
			return false
		}
		for _, r := range rawBetween(w, pre, post) {
			if r.kind == "drop" && r.p == id {
				return false
			}
		}
		return true
	}
	w.afterItem = append(w.afterItem, func(it Item) {
		if pre == nil || s.stopped {
			return
		}
		post := w.snapshot()
		// with a negative score a peer is never grafted - not by Join out of the fanout either
		// (heartbeat windows are judged by the heartbeat rules below)
		if it.Op != "adv" {
			for t, m := range post.mesh {
				for id := range m {
					if !pre.mesh[t][id] && post.scores[id] < 0 && pre.scores[id] < 0 && !post.direct[id] {
						s.violate("C09", "negative", "C09/negative/grafted", "%s (score %v) was added to the mesh of %s by %s", name(id), post.scores[id], t, it.Op)
					}
				}
			}
		}
		// PX connects requested in this step must be legal
		w.n.h.mu.Lock()
		newConns := append([]peer.AddrInfo(nil), w.n.h.connects[connMark:]...)
		w.n.h.mu.Unlock()
		for _, c := range newConns {
			if !legalPX[c.ID] {
				s.violate("C09", "px", "C09/px/illegal-connect", "the router requested a connection to %s which no acceptable PRUNE advertised with a valid record", shortPeer(c.ID))
			} else {
				s.probe("px_connect_followed")
			}
		}
		if it.Op == "graft2" {
			// GRAFT a, GRAFT b in one RPC: when the first is refused inside the back-off and the penalty
			// makes the score negative, the second must not be admitted (with a negative score a peer
			// is never grafted). Nothing else changes the score within this step.
			if fp := w.fake(int(it.a(0))); fp != nil && pre.outAlive[int(it.a(0))] && !pre.direct[fp.id] {
				a, b := w.topicName(it.a(1)), w.topicName(1-it.a(1))
				exp, bo := pre.backoff[a][fp.id]
				inBackoff := bo && s.epoch.Add(pre.t).Before(exp)
				_, joinedA := pre.mesh[a]
				if joinedA && inBackoff && !pre.mesh[a][fp.id] && pre.scores[fp.id] >= 0 && post.scores[fp.id] < 0 {
					s.probe("score_turned_negative_inside_one_rpc")
					if post.mesh[b][fp.id] && !pre.mesh[b][fp.id] {
						s.violate("C09", "negative", "C09/negative/grafted-after-penalty-in-same-rpc", "%s sent GRAFT %s (refused inside the back-off, penalised: score %v -> %v) and GRAFT %s in one RPC; the second was admitted although the score was negative by then", fp.name, a, pre.scores[fp.id], post.scores[fp.id], b)
					}
				}
			}
			return
		}
		var sender *fakePeer
		switch it.Op {
		case "pub", "ihave", "iwant", "graft", "prunepx", "pubgraft", "resend":
			sender = w.fake(int(it.a(0)))
		}
		if sender == nil || !pre.outAlive[int(it.a(0))] {
			return
		}
		id := sender.id
		sc := pre.scores[id]
		direct := pre.direct[id]
		nJudged++
		for _, th := range []float64{gs.graylistThreshold, gs.gossipThreshold, gs.publishThreshold, 0} {
			if sc == th {
				s.probe("score_exactly_at_a_threshold")
			}
		}
		if direct && sc < gs.graylistThreshold {
			s.probe("direct_peer_below_graylist")
		}
		topic := "t0"
		// --- graylist: no effect at all ---
		if !direct && sc < gs.graylistThreshold {
			s.probe("rpc_from_graylisted_peer")
			for _, i := range w.forder {
				if n := len(framesBetween(w, i, pre, post)); n > 0 {
					s.violate("C09", "graylist", "C09/graylist/rpc-had-effect", "%s from graylisted %s (score %v < %v) made the node write %d frame(s) to %s", it.Op, sender.name, sc, gs.graylistThreshold, n, w.fakes[i].name)
				}
			}
			if newDeliveries(id) > 0 {
				s.violate("C09", "graylist", "C09/graylist/delivered", "a message from graylisted %s was delivered", sender.name)
			}
			if d := diffSets(pre.mesh[topic], post.mesh[topic]); d != "" {
				s.violate("C09", "graylist", "C09/graylist/mesh-changed", "%s from graylisted %s changed the mesh: %s", it.Op, sender.name, d)
			}
			if pre.backoff[topic][id] != post.backoff[topic][id] {
				s.violate("C09", "graylist", "C09/graylist/backoff-changed", "%s from graylisted %s changed its back-off", it.Op, sender.name)
			}
			return
		}
		fr := framesTo(post, id)
		switch it.Op {
		case "ihave":
			asked := false
			for _, o := range fr {
				if len(o.rpc.GetControl().GetIwant()) > 0 {
					asked = true
				}
			}
			if sc < gs.gossipThreshold {
				s.probe("ihave_below_gossip_threshold")
				if asked {
					s.violate("C09", "gossip", "C09/gossip/ihave-answered-below-threshold", "IHAVE from %s (score %v < gossip threshold %v) was answered with IWANT", sender.name, sc, gs.gossipThreshold)
				}
			} else if _, j := pre.mesh[topic]; j && reachable(post, id) && !asked {
				// (flood protection may legitimately refuse: MaxIHaveMessages per heartbeat is large by default)
				s.probe("ihave_above_threshold_unanswered")
			} else if asked {
				s.probe("ihave_answered")
			}
		case "iwant":
			served := false
			for _, o := range fr {
				if len(o.rpc.GetPublish()) > 0 {
					served = true
				}
			}
			if sc < gs.gossipThreshold {
				s.probe("iwant_below_gossip_threshold")
				if served {
					s.violate("C09", "gossip", "C09/gossip/iwant-answered-below-threshold", "IWANT from %s (score %v < gossip threshold %v) was answered", sender.name, sc, gs.gossipThreshold)
				}
			} else if served {
				s.probe("iwant_served")
			}
		case "graft", "pubgraft":
			_, joined := pre.mesh[topic]
			if !joined || pre.mesh[topic][id] {
				break
			}
			if it.Op == "pubgraft" && thrott {
				s.probe("gater_throttled_rpc_with_control")
			}
			exp, bo := pre.backoff[topic][id]
			inBackoff := bo && s.epoch.Add(pre.t).Before(exp)
			_, known := pre.gsPeers[id]
			refuse := direct || inBackoff || !known || sc < 0 || (len(pre.mesh[topic]) >= gs.params.Dhi && !pre.outbound[id])
			if !refuse {
				if !post.mesh[topic][id] {
					what := "C09/graft/acceptable-refused"
					if thrott {
						what = "C09/gater/control-suppressed"
					}
					s.violate("C09", "graft", what, "GRAFT from %s (score %v) should have been accepted (gater throttled: %v)", sender.name, sc, thrott)
				}
				break
			}
			if post.mesh[topic][id] {
				s.violate("C09", "graft", "C09/graft/negative-admitted", "GRAFT from %s (score %v, direct %v, back-off %v) was admitted", sender.name, sc, direct, inBackoff)
			}
			if sc < 0 && !direct {
				s.probe("graft_from_negative_score_peer")
			}
			if reachable(post, id) {
				found := false
				for _, o := range fr {
					for _, pr := range o.rpc.GetControl().GetPrune() {
						if pr.GetTopicID() == topic {
							found = true
							if len(pr.GetPeers()) > 0 && sc < 0 {
								s.violate("C09", "graft", "C09/graft/refusal-with-px", "the PRUNE refusing the GRAFT of %s (score %v, direct %v, back-off %v) carries %d PX records", sender.name, sc, direct, inBackoff, len(pr.GetPeers()))
							}
						}
					}
				}
				if !found {
					what := "C09/graft/refusal-without-prune"
					if thrott {
						what = "C09/gater/control-suppressed"
					}
					s.violate("C09", "graft", what, "GRAFT from %s (score %v) was refused without PRUNE (gater throttled: %v)", sender.name, sc, thrott)
				}
			}
		case "pub", "resend":
			if direct && sc < gs.graylistThreshold {
				// direct peers are always accepted: a fresh valid message is delivered
				if it.Op == "pub" && len(w.vals) == 0 {
					n := newDeliveries(id)
					if n == 0 && pre.mySubs[w.topicName(it.a(1))] > 0 {
						s.violate("C09", "direct", "C09/direct/not-accepted", "a message from direct peer %s (score %v below graylist) was not delivered", sender.name, sc)
					}
				}
			}
		}
	})
	// heartbeat-relative rules
	w.afterHeartbeat = append(w.afterHeartbeat, func(hpre, hpost *snapshot) {
		for _, i := range w.forder {
			fp := w.fakes[i]
			sc := hpost.scores[fp.id]
			for _, o := range framesBetween(w, i, hpre, hpost) {
				c := o.rpc.GetControl()
				if len(c.GetIhave()) > 0 {
					if sc < gs.gossipThreshold {
						s.violate("C09", "gossip", "C09/gossip/ihave-sent-below-threshold", "heartbeat sent IHAVE to %s whose score %v is below the gossip threshold %v", fp.name, sc, gs.gossipThreshold)
					} else {
						s.probe("ihave_emitted")
						if sc == gs.gossipThreshold {
							s.probe("ihave_to_peer_exactly_at_gossip_threshold")
						}
					}
				}
				for _, pr := range c.GetPrune() {
					if sc < 0 && len(pr.GetPeers()) > 0 && hpre.mesh[pr.GetTopicID()][fp.id] {
						s.violate("C09", "negative", "C09/negative/pruned-with-px", "heartbeat pruned negatively scored %s (score %v) with %d PX records", fp.name, sc, len(pr.GetPeers()))
					}
					if sc >= 0 && len(pr.GetPeers()) > 0 {
						s.probe("prune_with_px")
					}
				}
			}
		}
		for t, m := range hpost.mesh {
			for id := range m {
				if hpost.scores[id] < 0 {
					s.violate("C09", "negative", "C09/negative/still-in-mesh", "after the heartbeat %s (score %v) is still in the mesh of %s", name(id), hpost.scores[id], t)
				}
			}
		}
		for t, m := range hpost.fanout {
			for id := range m {
				if hpost.scores[id] < gs.publishThreshold {
					s.violate("C09", "publish", "C09/publish/fanout-member-below-threshold", "after the heartbeat %s (score %v < publish threshold %v) is still in the fanout of %s", name(id), hpost.scores[id], gs.publishThreshold, t)
				}
			}
		}
	})
	w.atEnd = append(w.atEnd, func() {
		s.nontrivial = nJudged > 0
		s.class = fmt.Sprintf("%v/%x", p.kb("gater"), shortHash([]byte(c13ClassStrAll(w))))
	})
	w.run()
	_ = time.Second
}
