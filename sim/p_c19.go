package pubsub

// C19 — the event trace is a faithful account from which state can be rebuilt.
// W-NODE, all three routers, in-memory EventTracer always, JSON and protobuf file tracers on a
// drawn fraction of runs. The trace is replayed incrementally and compared with the node's
// state at every quiet point (end of every plan item).

import (
	"bufio"
	"encoding/binary"
	"encoding/json"
	"fmt"
	"io"
	"os"
	"path/filepath"
	"sort"
	"strings"
	"sync"
	"time"

	pb "github.com/libp2p/go-libp2p-pubsub/pb"
	"github.com/libp2p/go-libp2p/core/peer"
)

func init() {
	registerProp("C19", genC19, map[string]func(*sim){"node": runC19})
}

func genC19(seed uint64, tier string) *Plan {
	r := newPrng(seed, "c19")
	p := &Plan{World: "node", Knobs: map[string]float64{}, SK: map[string]string{}}
	p.SK["router"] = []string{"gossipsub", "gossipsub", "floodsub", "randomsub"}[r.intn(4)]
	p.Knobs["ntopics"] = float64(r.rng(1, 2))
	p.Knobs["scoring"] = float64(r.intn(2))
	p.Knobs["hb_ms"] = 1000
	p.Knobs["prune_backoff_s"] = float64(r.rng(2, 20))
	p.Knobs["unsub_backoff_s"] = float64(r.rng(1, 5))
	p.Knobs["queue_size"] = float64([]int{2, 8, 32}[r.intn(3)])
	p.Knobs["file_tracers"] = float64(b2i(r.chance(0.2)))
	p.SK["sign"] = []string{"strict", "strict", "strictnosign", "laxsign", "laxnosign"}[r.intn(5)]
	p.Knobs["seen_ttl_ms"] = 600000
	p.Knobs["rsize"] = float64(r.rng(1, 4))
	p.Knobs["idfn"] = float64(b2i(r.chance(0.3)))                     // message ID = hash of the payload
	p.Knobs["idw_threshold"] = float64([]int{1, 32, 1024}[r.intn(3)]) // IDONTWANT (an urgent push) for small messages too
	if r.chance(0.25) {
		p.Knobs["fanout_only_last"] = 1 // the last topic is joined with FanoutOnly(): subscriptions to it are local only
	}
	p.Knobs["px"] = float64(r.intn(2))
	genDegrees(r, p, 4)
	nt := p.ki("ntopics", 1)
	add := func(op string, a ...int64) { p.Items = append(p.Items, Item{Op: op, A: a}) }
	if r.chance(0.6) {
		add("node-sub", 0)
	}
	np := r.rng(1, 5)
	for i := 0; i < np; i++ {
		genBringUp(r, p, i, nt, 0.85)
	}
	n := r.rng(10, 36)
	if tier == "thorough" {
		n = r.rng(10, 80)
	}
	for k := 0; k < n; k++ {
		i := int64(r.intn(np))
		t := int64(r.intn(nt))
		x := r.intn(100)
		switch {
		case x < 12:
			add("node-sub", t)
		case x < 22:
			add("node-cancel", int64(r.intn(3)))
		case x < 27:
			add("node-relay", t)
		case x < 32:
			add("node-relay-cancel", t)
		case x < 42:
			add("adv", int64(r.rng(100, 2500)))
		case x < 48:
			add("graft", i, t)
		case x < 53:
			add("prune", i, t, int64(r.intn(2)*r.rng(1, 20)), int64(r.intn(2)*r.rng(1, 3))) // with or without peer-exchange records
		case x < 59:
			add("pub", i, t, int64(r.rng(8, 100)))
		case x < 61:
			add("pubdup", i, t, int64(r.rng(8, 100)))
		case x < 66:
			add("resend", i, int64(r.intn(5)))
		case x < 68:
			add("node-pub", t, int64(r.rng(8, 100)))
		case x < 70:
			add("node-pub-same", int64(r.intn(6)), int64(r.intn(2))) // a payload the node has published or received before
		case x < 71:
			add("node-pub-key", t, int64(r.rng(8, 100))) // per-publish identity (refused by the no-sign policies)
		case x < 73:
			// a batch; bit k of the mask makes message k a local-only publication
			add("node-batch", t, int64(r.rng(1, 4)), int64(r.intn(16)), int64(r.rng(8, 100)))
		case x < 74:
			// one batch object used again while its first load still waits for the event loop
			add("node-batch-race", t, int64(r.rng(8, 100)))
		case x < 78:
			add("disconnect", i)
		case x < 83:
			add("reconnect", i, int64(r.intn(2)))
			add("identify", i)
			add("adv", 5)
			add("open", i)
			add("sub", i, t)
		case x < 86:
			add("reset-in", i)
			add("adv", int64(r.rng(100, 1500)))
		case x < 88:
			add("reset-out", i)
		case x < 91:
			add("stall", i, int64(r.intn(2)))
		case x < 94:
			add("sub", i, t)
		case x < 96:
			add("unsub", i, t)
		case x < 98:
			add("score", i, int64(r.rng(-5, 5))*1000)
		default:
			add("blacklist", i)
		}
	}
	add("adv", int64(r.rng(500, 3000)))
	return p
}

// teeTracer hands every event to all sinks under one lock, so that all sinks see one order. (The
// library traces from several goroutines: a local Publish sends the router's Preprocess step to
// the event loop - SEND_RPC for an IDONTWANT - and goes on to trace PUBLISH_MESSAGE itself without
// waiting; the two events have no order. Without the lock two sinks could record them in opposite
// orders and the comparison of the file traces with the in-memory trace raised a false alarm,
// 2 in 1.2e6 thorough runs.)
type teeTracer struct {
	mu *sync.Mutex
	ts []EventTracer
}

func (t teeTracer) Trace(evt *pb.TraceEvent) {
	t.mu.Lock()
	defer t.mu.Unlock()
	for _, x := range t.ts {
		x.Trace(evt)
	}
}

func runC19(s *sim) {
	w := newNodeWorld(s)
	p := w.plan
	var extra []Option
	var jt *JSONTracer
	var pt *PBTracer
	var dir string
	if p.kb("file_tracers") {
		var err error
		dir, err = os.MkdirTemp("", "verif-trace-")
		if err == nil {
			jt, _ = OpenJSONTracer(filepath.Join(dir, "t.json"), os.O_CREATE|os.O_WRONLY|os.O_TRUNC, 0o644, discardLogger)
			pt, _ = OpenPBTracer(filepath.Join(dir, "t.pb"), os.O_CREATE|os.O_WRONLY|os.O_TRUNC, 0o644, discardLogger)
		}
		defer func() {
			if dir != "" {
				os.RemoveAll(dir)
			}
		}()
	}
	w.teeTracers = func(mem EventTracer) EventTracer {
		ts := []EventTracer{mem}
		if jt != nil {
			ts = append(ts, jt)
		}
		if pt != nil {
			ts = append(ts, pt)
		}
		return teeTracer{&sync.Mutex{}, ts}
	}
	if p.kb("idfn") {
		extra = append(extra, WithMessageIdFn(func(m *pb.Message) string { return "c:" + m.GetTopic() + "|" + contentID(m) }))
	}
	if err := w.startNode(extra...); err != nil {
		s.violate("SIM", "setup", "SIM/setup", "node creation failed: %v", err)
		return
	}
	router := w.n.router
	fanoutOnlyTopic := ""
	if p.kb("fanout_only_last") {
		fanoutOnlyTopic = w.topics[len(w.topics)-1]
		w.n.topicOpts = func(name string) []TopicOpt {
			if name == fanoutOnlyTopic {
				return []TopicOpt{FanoutOnly()}
			}
			return nil
		}
	}
	idOf := func(m *pb.Message) string { return w.n.ps.idGen.RawID(m) }
	// every push on a peer's outbound queue and its outcome (verifObservePush), whoever pushes:
	// announcements and their retries, the three routers
	accepted := map[peer.ID]int{}
	refused := map[peer.ID]int{}
	defer func() { verifObservePushFn = nil }()
	verifObservePushFn = func(q *rpcQueue, rpc *RPC, err error) {
		// (event loop goroutine: the peer table is its own)
		var pid peer.ID
		for id, x := range w.n.ps.peers {
			if x == q {
				pid = id
			}
		}
		s.mu.Lock()
		defer s.mu.Unlock()
		if err == nil {
			accepted[pid]++
		} else {
			refused[pid]++
		}
	}
	armed := 0
	defer func() { verifYieldFn = nil }()
	verifYieldFn = func(point int) {
		if point != verifLoopRequest {
			return
		}
		s.mu.Lock()
		a := armed > 0
		if a {
			armed--
		}
		s.mu.Unlock()
		if a {
			s.park("loop-request", nil, nil, nil)
		}
	}
	releaseLoop := func() {
		for _, g := range s.parkedGates() {
			if strings.HasPrefix(g.id, "loop-request") {
				s.release(g, 0)
			}
		}
		s.settle()
	}
	// every RPC the gossipsub router hands to a peer's queue (verifObserveSendRPC: after
	// piggy-backing, before the push) -- the independent count SEND_RPC + DROP_RPC is compared with
	attempts := map[peer.ID]int{}
	unjudged := map[peer.ID]bool{}
	defer func() { verifObserveSendRPCFn = nil }()
	verifObserveSendRPCFn = func(pid peer.ID, out *RPC) {
		// (event loop goroutine)
		if _, ok := w.n.ps.peers[pid]; !ok {
			return // no queue: nothing accepts or refuses
		}
		s.mu.Lock()
		defer s.mu.Unlock()
		if out.Size() >= w.n.ps.maxMessageSize {
			unjudged[pid] = true // split into fragments: not counted
			return
		}
		attempts[pid]++
	}
	routerSend := map[peer.ID]int{}
	routerDrop := map[peer.ID]int{}
	// incremental replay state
	cur := 0
	joined := map[string]bool{}
	peers := map[peer.ID]bool{}
	mesh := map[string]map[peer.ID]bool{}
	deliver := map[string]int{}
	publishN := 0
	sendN := map[peer.ID]int{}
	dropN := map[peer.ID]int{}
	localPubs := 0
	var ownData [][2]string // topic, payload of the node's own publications
	w.localHook = func(topic string, data []byte, c *call) {
		localPubs++
		ownData = append(ownData, [2]string{topic, string(data)})
	}
	w.extraOps["node-pub-same"] = func(it Item) {
		var cand [][2]string
		for _, id := range w.sentIDs() {
			cand = append(cand, [2]string{w.sent[id].GetTopic(), string(w.sent[id].GetData())})
		}
		cand = append(cand, ownData...)
		if len(cand) == 0 {
			return
		}
		c := cand[int(it.a(0))%len(cand)]
		localPubs++
		s.probe("local_publish_of_known_payload")
		s.do("Publish (known payload) "+c[0], func() any {
			t, err := w.n.topic(c[0])
			if err != nil {
				return err
			}
			if it.a(1) == 1 {
				return t.Publish(s.bgctx(), []byte(c[1]), WithLocalPublication(true))
			}
			return t.Publish(s.bgctx(), []byte(c[1]))
		})
	}
	ghostKey := genKey(newPrng(p.Seed, "ghost"), 0)
	ghostID, _ := peer.IDFromPrivateKey(ghostKey)
	w.extraOps["node-pub-key"] = func(it Item) {
		topic := w.topicName(it.a(0))
		data := w.mkData(int(it.a(1)))
		localPubs++
		s.probe("local_publish_with_per_publish_identity")
		s.do("Publish(WithSecretKeyAndPeerId) "+topic, func() any {
			t, err := w.n.topic(topic)
			if err != nil {
				return err
			}
			return t.Publish(s.bgctx(), data, WithSecretKeyAndPeerId(ghostKey, ghostID))
		})
	}
	w.extraOps["node-batch"] = func(it Item) {
		topic := w.topicName(it.a(0))
		var b MessageBatch
		for k := 0; k < int(it.a(1)); k++ {
			data := w.mkData(int(it.a(3)) + k)
			local := it.a(2)>>uint(k)&1 == 1
			localPubs++
			ownData = append(ownData, [2]string{topic, string(data)})
			if local {
				s.probe("batch_with_local_only_message")
			}
			s.do("AddToBatch "+topic, func() any {
				t, err := w.n.topic(topic)
				if err != nil {
					return err
				}
				if local {
					return t.AddToBatch(s.bgctx(), &b, data, WithLocalPublication(true))
				}
				return t.AddToBatch(s.bgctx(), &b, data)
			})
		}
		s.do("PublishBatch", func() any { return w.n.ps.PublishBatch(&b) })
	}
	w.extraOps["node-batch-race"] = func(it Item) {
		if w.n.gs() == nil {
			return
		}
		topic := w.topicName(it.a(0))
		tp, err := w.n.topic(topic)
		if err != nil {
			return
		}
		var b MessageBatch
		d1, d2 := w.mkData(int(it.a(1))), w.mkData(int(it.a(1))+1)
		localPubs += 2
		ownData = append(ownData, [2]string{topic, string(d1)}, [2]string{topic, string(d2)})
		s.do("AddToBatch "+topic, func() any { return tp.AddToBatch(s.bgctx(), &b, d1) })
		// the loop is busy; the batch is handed over (one slot of buffer) and PublishBatch returns
		s.mu.Lock()
		armed = 1
		s.mu.Unlock()
		s.spawn("GetTopics (keeps the loop busy)", func() any { return len(w.n.ps.GetTopics()) })
		s.settle()
		s.do("PublishBatch", func() any { return w.n.ps.PublishBatch(&b) })
		// the same batch object takes the next message: its first step needs the loop ...
		c := s.spawn("AddToBatch (same batch object) "+topic, func() any { return tp.AddToBatch(s.bgctx(), &b, d2) })
		s.settle()
		// ... which, once released, is held again on whatever it takes next (the seeded select
		// decides between the waiting batch and the waiting step of AddToBatch)
		s.mu.Lock()
		armed = 1
		s.mu.Unlock()
		releaseLoop()
		s.mu.Lock()
		armed = 0
		s.mu.Unlock()
		releaseLoop()
		releaseLoop()
		if c.isDone(s) {
			s.probe("batch_object_reused_while_first_load_waits")
		}
		s.do("PublishBatch (second load)", func() any { return w.n.ps.PublishBatch(&b) })
	}

	replay := func() {
		w.n.mu.Lock()
		evs := append([]traceRec(nil), w.n.trace[cur:]...)
		cur = len(w.n.trace)
		w.n.mu.Unlock()
		for _, r := range evs {
			e := r.ev
			switch e.GetType() {
			case pb.TraceEvent_JOIN:
				t := e.GetJoin().GetTopic()
				if joined[t] {
					s.violate("C19", "alternation", "C19/"+router+"/join-while-joined", "JOIN(%s) traced while the trace says the topic is already joined", t)
				}
				joined[t] = true
				if mesh[t] == nil {
					mesh[t] = map[peer.ID]bool{}
				}
			case pb.TraceEvent_LEAVE:
				t := e.GetLeave().GetTopic()
				if !joined[t] {
					s.violate("C19", "alternation", "C19/"+router+"/leave-while-not-joined", "LEAVE(%s) traced while the trace says the topic is not joined", t)
				}
				delete(joined, t)
				delete(mesh, t)
			case pb.TraceEvent_ON_NEW_OUTBOUND_STREAM:
				peers[peer.ID(e.GetOnNewOutboundStream().GetPeerID())] = true
			case pb.TraceEvent_ON_CLOSED_OUTBOUND_STREAM:
				id := peer.ID(e.GetOnClosedOutboundStream().GetPeerID())
				delete(peers, id)
				for _, m := range mesh {
					delete(m, id)
				}
			case pb.TraceEvent_GRAFT:
				t := e.GetGraft().GetTopic()
				if mesh[t] == nil {
					mesh[t] = map[peer.ID]bool{}
				}
				mesh[t][peer.ID(e.GetGraft().GetPeerID())] = true
			case pb.TraceEvent_PRUNE:
				t := e.GetPrune().GetTopic()
				if mesh[t] != nil {
					delete(mesh[t], peer.ID(e.GetPrune().GetPeerID()))
				}
			case pb.TraceEvent_DELIVER_MESSAGE:
				id := string(e.GetDeliverMessage().GetMessageID())
				deliver[id]++
				if deliver[id] > 1 {
					s.violate("C19", "deliver-once", "C19/deliver-traced-twice", "DELIVER_MESSAGE traced %d times for message %x", deliver[id], shortHash([]byte(id)))
				}
			case pb.TraceEvent_PUBLISH_MESSAGE:
				publishN++
			case pb.TraceEvent_SEND_RPC:
				sendN[peer.ID(e.GetSendRPC().GetSendTo())]++
				if len(e.GetSendRPC().GetMeta().GetSubscription()) == 0 {
					routerSend[peer.ID(e.GetSendRPC().GetSendTo())]++ // (announcements do not come from the router)
				}
			case pb.TraceEvent_DROP_RPC:
				dropN[peer.ID(e.GetDropRPC().GetSendTo())]++
				if len(e.GetDropRPC().GetMeta().GetSubscription()) == 0 {
					routerDrop[peer.ID(e.GetDropRPC().GetSendTo())]++
				}
				s.probe("drop_traced")
			}
		}
	}
	compare := func(where string) {
		replay()
		sn := w.snapshot()
		// joins
		truth := map[string]bool{}
		for t, n := range sn.mySubs {
			if n > 0 && t != fanoutOnlyTopic {
				truth[t] = true
			}
		}
		for t, n := range sn.myRelays {
			if n > 0 {
				truth[t] = true
			}
		}
		for _, t := range w.topics {
			if truth[t] != joined[t] {
				s.violate("C19", "join-state", "C19/"+router+"/join-state-differs", "%s: trace says joined(%s)=%v, node says %v", where, t, joined[t], truth[t])
			}
		}
		// peer set
		var real map[peer.ID]bool
		switch rt := w.n.ps.rt.(type) {
		case *GossipSubRouter:
			real = map[peer.ID]bool{}
			for id := range rt.peers {
				real[id] = true
			}
		case *RandomSubRouter:
			real = map[peer.ID]bool{}
			for id := range rt.peers {
				real[id] = true
			}
		}
		if real != nil {
			if d := diffSets(peers, real); d != "" {
				s.violate("C19", "peer-set", "C19/"+router+"/peer-set-differs", "%s: peer set rebuilt from the trace differs from the router's: %s", where, d)
			} else if len(real) > 0 {
				s.probe("peer_set_compared")
			}
		}
		if gs := w.n.gs(); gs != nil {
			for t, m := range sn.mesh {
				if d := diffSets(mesh[t], m); d != "" {
					s.violate("C19", "mesh", "C19/mesh-differs", "%s: mesh of %s rebuilt from the trace differs from the router's: %s", where, t, d)
				} else if len(m) > 0 {
					s.probe("mesh_compared")
				}
			}
			for t, m := range mesh {
				if _, ok := sn.mesh[t]; !ok && len(m) > 0 {
					s.violate("C19", "mesh", "C19/mesh-differs", "%s: trace has a mesh for %s with %d members, the router has none", where, t, len(m))
				}
			}
		}
	}
	w.afterItem = append(w.afterItem, func(it Item) { compare("after " + it.Op) })
	w.atEnd = append(w.atEnd, func() {
		// let everything drain
		for _, fp := range w.allFakes() {
			fp.stall(false)
		}
		s.advance(100 * time.Millisecond)
		s.settle()
		compare("end of run")
		// deliveries: every message delivered locally has exactly one DELIVER_MESSAGE
		seen := map[string]bool{}
		for _, ss := range w.n.subs {
			for _, m := range ss.messages() {
				id := w.n.ps.idGen.ID(m)
				if !seen[id] {
					seen[id] = true
					if deliver[id] != 1 {
						s.violate("C19", "deliver-once", "C19/delivered-without-trace", "message %x was delivered to a subscription but has %d DELIVER_MESSAGE events", shortHash([]byte(id)), deliver[id])
					}
				}
			}
		}
		for _, fp := range w.allFakes() {
			for _, o := range fp.recv {
				for _, m := range o.rpc.GetPublish() {
					id := idOf(m)
					if deliver[id] != 1 {
						s.violate("C19", "deliver-once", "C19/forwarded-without-trace", "message %x was sent to %s but has %d DELIVER_MESSAGE events", shortHash([]byte(id)), fp.name, deliver[id])
					}
				}
			}
		}
		if len(deliver) > 0 {
			s.probe("deliver_events_checked")
		}
		// publications
		if publishN != localPubs {
			s.violate("C19", "publish", "C19/publish-count", "%d local publication attempts, %d PUBLISH_MESSAGE events", localPubs, publishN)
		}
		// gossipsub: every RPC handed to a peer's queue was traced as sent or as dropped
		if w.n.gs() != nil {
			s.mu.Lock()
			for _, fp := range w.allFakes() {
				if unjudged[fp.id] {
					continue
				}
				if attempts[fp.id] != routerSend[fp.id]+routerDrop[fp.id] {
					s.violate("C19", "send-rpc", "C19/gossipsub/queue-push-untraced", "the router handed %d RPCs to the outbound queue of %s; the trace has %d SEND_RPC and %d DROP_RPC events for it (announcements excluded)", attempts[fp.id], fp.name, routerSend[fp.id], routerDrop[fp.id])
				} else if routerDrop[fp.id] > 0 {
					s.probe("queue_push_outcomes_checked_with_drops")
				}
			}
			s.mu.Unlock()
		}
		// every router, announcements included: an accepted push has its SEND_RPC, a refused one its
		// DROP_RPC (DROP_RPC is also traced for fragments that are never pushed: lower bound)
		s.mu.Lock()
		for _, fp := range w.allFakes() {
			if accepted[fp.id] != sendN[fp.id] {
				s.violate("C19", "send-rpc", "C19/"+router+"/accepted-push-vs-send-rpc", "the outbound queue of %s accepted %d RPCs, the trace has %d SEND_RPC events for it", fp.name, accepted[fp.id], sendN[fp.id])
			}
			if refused[fp.id] > dropN[fp.id] {
				s.violate("C19", "send-rpc", "C19/"+router+"/refused-push-without-drop-rpc", "the outbound queue of %s refused %d RPCs, the trace has only %d DROP_RPC events for it", fp.name, refused[fp.id], dropN[fp.id])
			} else if refused[fp.id] > 0 {
				s.probe("refused_pushes_checked")
			}
		}
		s.mu.Unlock()
		// SEND_RPC vs frames on healthy streams: peers that had exactly one outbound stream from the
		// node, never stalled, alive at the end
		for _, fp := range w.allFakes() {
			if fp.inGen != 1 || fp.everStalled || fp.disturbed || !fp.inAlive() {
				continue
			}
			frames := len(fp.recv)
			if fp.helloExpected {
				frames-- // the hello packet is not a traced send
			}
			if frames != sendN[fp.id] {
				s.violate("C19", "send-rpc", "C19/"+router+"/send-rpc-count", "peer %s received %d frames after the hello, the trace has %d SEND_RPC events (and %d DROP_RPC)", fp.name, frames, sendN[fp.id], dropN[fp.id])
			} else if frames > 0 {
				s.probe("send_rpc_count_checked")
			}
		}
		// file tracers carry the same sequence
		if jt != nil && pt != nil {
			jt.Close()
			pt.Close()
			s.settle()
			w.n.mu.Lock()
			mem := append([]traceRec(nil), w.n.trace...)
			w.n.mu.Unlock()
			var memTypes []string
			for _, r := range mem {
				memTypes = append(memTypes, fmt.Sprintf("%s/%d", r.ev.GetType(), r.ev.GetTimestamp()))
			}
			if jtypes, err := readJSONTrace(filepath.Join(dir, "t.json")); err != nil {
				s.violate("C19", "file", "C19/json-trace-unreadable", "%v", err)
			} else if d := diffSeq(memTypes, jtypes); d != "" {
				s.violate("C19", "file", "C19/json-trace-differs", "JSON trace differs from the in-memory trace: %s", d)
			}
			if ptypes, err := readPBTrace(filepath.Join(dir, "t.pb")); err != nil {
				s.violate("C19", "file", "C19/pb-trace-unreadable", "%v", err)
			} else if d := diffSeq(memTypes, ptypes); d != "" {
				s.violate("C19", "file", "C19/pb-trace-differs", "protobuf trace differs from the in-memory trace: %s", d)
			}
			s.probe("file_tracers_compared")
		}
		s.nontrivial = cur > 0
		s.class = fmt.Sprintf("%s/%x", router, shortHash([]byte(c13ClassStrAll(w))))
	})
	w.run()
	if jt != nil {
		jt.Close()
	}
	if pt != nil {
		pt.Close()
	}
	synctestWait()
}

func diffSets(a, b map[peer.ID]bool) string {
	var only []string
	for k := range a {
		if !b[k] {
			only = append(only, "trace-only:"+shortPeer(k))
		}
	}
	for k := range b {
		if !a[k] {
			only = append(only, "state-only:"+shortPeer(k))
		}
	}
	sort.Strings(only)
	if len(only) == 0 {
		return ""
	}
	return fmt.Sprint(only)
}

func diffSeq(a, b []string) string {
	if len(a) != len(b) {
		return fmt.Sprintf("lengths %d vs %d", len(a), len(b))
	}
	for i := range a {
		if a[i] != b[i] {
			return fmt.Sprintf("event %d: %s vs %s", i, a[i], b[i])
		}
	}
	return ""
}

func readJSONTrace(path string) ([]string, error) {
	f, err := os.Open(path)
	if err != nil {
		return nil, err
	}
	defer f.Close()
	var out []string
	dec := json.NewDecoder(f)
	for {
		var e pb.TraceEvent
		if err := dec.Decode(&e); err == io.EOF {
			break
		} else if err != nil {
			return nil, err
		}
		out = append(out, fmt.Sprintf("%s/%d", e.GetType(), e.GetTimestamp()))
	}
	return out, nil
}

func readPBTrace(path string) ([]string, error) {
	f, err := os.Open(path)
	if err != nil {
		return nil, err
	}
	defer f.Close()
	br := bufio.NewReader(f)
	var out []string
	for {
		l, err := binary.ReadUvarint(br)
		if err == io.EOF {
			break
		} else if err != nil {
			return nil, err
		}
		buf := make([]byte, l)
		if _, err := io.ReadFull(br, buf); err != nil {
			return nil, err
		}
		var e pb.TraceEvent
		if err := e.Unmarshal(buf); err != nil {
			return nil, err
		}
		out = append(out, fmt.Sprintf("%s/%d", e.GetType(), e.GetTimestamp()))
	}
	return out, nil
}
