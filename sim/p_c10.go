package pubsub

// C10 — peer scores equal the GossipSub v1.1 scoring function of the peer's history.
// W-SCORE: a real peerScore (with its real background goroutine: decay ticker, IP refresh,
// record GC) under the fake clock, fed well-formed tracer histories from a grammar; a reference
// model written from the v1.1 specification is advanced with the same events and compared after
// every event.

import (
	"context"
	"fmt"
	"math"
	"net"
	"sort"
	"time"

	pb "github.com/libp2p/go-libp2p-pubsub/pb"
	"github.com/libp2p/go-libp2p/core/peer"
)

func init() {
	registerProp("C10", genC10, map[string]func(*sim){"score": runC10})
}

// ---- parameter generation: everything validate() accepts -------------------------------------

func genC10(seed uint64, tier string) *Plan {
	r := newPrng(seed, "c10")
	p := &Plan{World: "score", Knobs: map[string]float64{}}
	nt := r.rng(1, 3)
	p.Knobs["ntopics"] = float64(nt)
	p.Knobs["npeers"] = float64(r.rng(1, 4))
	p.Knobs["skip_atomic"] = float64(b2i(r.chance(0.35)))
	p.Knobs["shared_topic_params"] = float64(b2i(r.chance(0.2)))
	p.Knobs["topic_cap"] = []float64{0, 0, 5, 50}[r.intn(4)]
	p.Knobs["app_weight"] = []float64{0, 1, 2.5}[r.intn(3)]
	p.Knobs["ip_weight"] = []float64{0, -1, -7}[r.intn(3)]
	p.Knobs["ip_threshold"] = float64(r.rng(1, 3))
	p.Knobs["ip_whitelist"] = float64(b2i(r.chance(0.3)))
	p.Knobs["bp_weight"] = []float64{0, -1, -3}[r.intn(3)]
	p.Knobs["bp_threshold"] = []float64{0, 1, 2.5}[r.intn(3)]
	p.Knobs["bp_decay"] = []float64{0.5, 0.9, 0.99}[r.intn(3)]
	p.Knobs["decay_to_zero"] = []float64{0.01, 0.1, 0.5}[r.intn(3)]
	p.Knobs["retain_s"] = float64([]int{0, 3, 10, 60}[r.intn(4)])
	for t := 0; t < nt; t++ {
		k := func(n string) string { return fmt.Sprintf("t%d_%s", t, n) }
		p.Knobs[k("weight")] = []float64{0, 0.5, 1, 3}[r.intn(4)]
		p.Knobs[k("skip")] = p.Knobs["skip_atomic"] * float64(b2i(r.chance(0.7)))
		// groups: each either fully specified or (under skip) left at zero
		zero := func() bool { return p.Knobs[k("skip")] != 0 && r.chance(0.4) }
		if !zero() {
			p.Knobs[k("p1w")] = []float64{0, 0.5, 2}[r.intn(3)]
			p.Knobs[k("p1q_ms")] = float64([]int{1, 500, 1000, 3000}[r.intn(4)])
			p.Knobs[k("p1cap")] = []float64{1, 5, 100}[r.intn(3)]
		}
		if !zero() {
			p.Knobs[k("p2w")] = []float64{0, 1, 4}[r.intn(3)]
			p.Knobs[k("p2d")] = []float64{0.5, 0.9, 0.99}[r.intn(3)]
			p.Knobs[k("p2cap")] = []float64{1, 3, 50}[r.intn(3)]
		}
		if !zero() {
			p.Knobs[k("p3w")] = []float64{0, -1, -2}[r.intn(3)]
			p.Knobs[k("p3d")] = []float64{0.5, 0.9, 0.99}[r.intn(3)]
			p.Knobs[k("p3cap")] = []float64{2, 5, 50}[r.intn(3)]
			p.Knobs[k("p3thr")] = []float64{1, 2, 4}[r.intn(3)]
			p.Knobs[k("p3win_ms")] = float64([]int{0, 10, 500, 2000}[r.intn(4)])
			p.Knobs[k("p3act_ms")] = float64([]int{1000, 2500, 10000}[r.intn(3)])
		}
		if !zero() {
			p.Knobs[k("p3bw")] = []float64{0, -1, -4}[r.intn(3)]
			p.Knobs[k("p3bd")] = []float64{0.5, 0.9}[r.intn(2)]
		}
		if !zero() {
			p.Knobs[k("p4w")] = []float64{0, -1, -10}[r.intn(3)]
			p.Knobs[k("p4d")] = []float64{0.5, 0.9, 0.99}[r.intn(3)]
		}
	}
	if r.chance(0.12) {
		// a component switched off by a zero weight, its other parameters left at values that only
		// make sense for an enabled component (the library validates them only when the weight is
		// non-zero): decay above one, huge threshold
		t := r.intn(nt)
		k := func(n string) string { return fmt.Sprintf("t%d_%s", t, n) }
		switch r.intn(5) {
		case 0:
			p.Knobs[k("p2w")], p.Knobs[k("p2d")] = 0, 2
		case 1:
			p.Knobs[k("p3w")], p.Knobs[k("p3d")] = 0, 2
		case 2:
			p.Knobs[k("p3w")], p.Knobs[k("p3thr")] = 0, 1e300 // read as +Inf
		case 3:
			p.Knobs[k("p3bw")], p.Knobs[k("p3bd")] = 0, 2
		default:
			p.Knobs["bp_weight"], p.Knobs["bp_decay"] = 0, 2
		}
		p.Knobs["wild_disabled_component"] = 1
	}
	np := p.ki("npeers", 1)
	add := func(op string, a ...int64) { p.Items = append(p.Items, Item{Op: op, A: a}) }
	for i := 0; i < np; i++ {
		add("connect", int64(i), int64(r.intn(3)))
	}
	n := r.rng(15, 60)
	if tier == "thorough" {
		n = r.rng(15, 150)
	}
	if np >= 2 && r.chance(0.12) {
		// a peer with two connections from different addresses, one of them shared with another
		// peer, loses the shared one: address bookkeeping across two refreshes
		p.Knobs["ip_threshold"] = 1
		if p.Knobs["ip_weight"] == 0 {
			p.Knobs["ip_weight"] = -1
		}
		add("disconnect", 0)
		add("disconnect", 1)
		add("connect", 0, 2)
		add("conn2", 0, 0)
		add("adv", 61000)
		add("connect", 1, 0)
		add("adv", int64(r.rng(1, 2000)))
		add("disc2", 0, int64(r.intn(2)))
		add("adv", 61000)
	}
	for k := 0; k < n; k++ {
		i := int64(r.intn(np))
		t := int64(r.intn(nt))
		x := r.intn(100)
		switch {
		case x < 10:
			add("graft", i, t)
		case x < 15:
			add("prune", i, t)
		case x < 33:
			add("msg", i, t, int64(r.intn(6))) // new message from i; outcome kind
		case x < 48:
			add("dup", i, int64(r.intn(8))) // duplicate of the k-th recent message from i
		case x < 56:
			add("finish", int64(r.intn(8)), int64(r.intn(4))) // finish validation of a pending message
		case x < 61:
			add("penalty", i, int64(r.rng(1, 3)))
		case x < 75:
			add("adv", int64([]int{1, 10, 400, 999, 1000, 1001, 2500, 7000}[r.intn(8)]))
		case x < 78:
			add("adv", int64(r.rng(10000, 70000)))
		case x < 82:
			add("disconnect", i)
		case x < 88:
			add("connect", i, int64(r.intn(3)))
		case x < 91:
			add("recap", t, int64(r.intn(3)))
		case x < 94:
			add("appscore", i, int64(r.rng(-5, 5)))
		case x < 96:
			add("rejectnow", i, t, int64(r.intn(5)))
		case x < 97:
			add("rejectdup", i, int64(r.intn(8)), int64(r.intn(3))) // signature-type rejection of a known message ID
		case x < 98:
			add("redeliver", i, int64(r.intn(8))) // a finished message ID comes through the pipeline again
		case x < 99:
			add("conn2", i, int64(r.intn(4))) // a second connection of the peer, from another address
		default:
			add("disc2", i, int64(r.intn(2))) // one of its connections closes
		}
	}
	return p
}

// ---- reference model (written from the GossipSub v1.1 specification) -------------------------

type refTopic struct {
	inMesh    bool
	graftTime time.Duration
	meshTime  time.Duration // sampled at decay ticks
	fmd, mmd  float64
	active    bool
	mfp, imd  float64
}
type refPeer struct {
	connected bool
	expire    time.Duration
	topics    map[string]*refTopic
	bp        float64
	ips       []string
}
type refRecord struct {
	status    int // 0 unknown 1 valid 2 invalid 3 ignored 4 throttled
	validated time.Duration
	peers     map[int]bool
	first     int
	topic     string
}
type refModel struct {
	P     *PeerScoreParams
	peers map[int]*refPeer
	ipOf  map[int]string
	ipSet map[string]map[int]bool
	app   map[int]float64
	wl    []*net.IPNet
	now   func() time.Duration
}

func (m *refModel) topicStats(p *refPeer, t string) *refTopic {
	if ts := p.topics[t]; ts != nil {
		return ts
	}
	if _, scored := m.P.Topics[t]; !scored {
		return nil
	}
	ts := &refTopic{}
	p.topics[t] = ts
	return ts
}

func (m *refModel) ipFactor(i int) float64 {
	p := m.peers[i]
	if p == nil {
		return 0
	}
	res := 0.0
	for _, ip := range p.ips {
		white := false
		for _, n := range m.wl {
			if n.Contains(net.ParseIP(ip)) {
				white = true
			}
		}
		if white {
			continue
		}
		n := len(m.ipSet[ip])
		if n > m.P.IPColocationFactorThreshold {
			s := float64(n - m.P.IPColocationFactorThreshold)
			res += s * s
		}
	}
	return res
}

// score: the v1.1 function. skip names a component to leave out (penalty monotonicity check).
func (m *refModel) score(i int, skip string) float64 {
	p := m.peers[i]
	if p == nil {
		return 0
	}
	total := 0.0
	var names []string
	for t := range p.topics {
		names = append(names, t)
	}
	sort.Strings(names)
	for _, t := range names {
		ts := p.topics[t]
		tp := m.P.Topics[t]
		if tp == nil {
			continue
		}
		s := 0.0
		if ts.inMesh && tp.TimeInMeshQuantum > 0 {
			p1 := float64(ts.meshTime / tp.TimeInMeshQuantum)
			if p1 > tp.TimeInMeshCap {
				p1 = tp.TimeInMeshCap
			}
			s += p1 * tp.TimeInMeshWeight
		}
		// (a component whose weight is zero is switched off: it contributes nothing, whatever its
		// counter holds)
		if tp.FirstMessageDeliveriesWeight != 0 {
			s += ts.fmd * tp.FirstMessageDeliveriesWeight
		}
		if skip != "p3" && tp.MeshMessageDeliveriesWeight != 0 && ts.active && ts.mmd < tp.MeshMessageDeliveriesThreshold {
			d := tp.MeshMessageDeliveriesThreshold - ts.mmd
			s += d * d * tp.MeshMessageDeliveriesWeight
		}
		if skip != "p3b" && tp.MeshFailurePenaltyWeight != 0 {
			s += ts.mfp * tp.MeshFailurePenaltyWeight
		}
		if skip != "p4" && tp.InvalidMessageDeliveriesWeight != 0 {
			s += ts.imd * ts.imd * tp.InvalidMessageDeliveriesWeight
		}
		total += s * tp.TopicWeight
	}
	if m.P.TopicScoreCap > 0 && total > m.P.TopicScoreCap {
		total = m.P.TopicScoreCap
	}
	total += m.app[i] * m.P.AppSpecificWeight
	if skip != "p6" {
		total += m.ipFactor(i) * m.P.IPColocationFactorWeight
	}
	if skip != "p7" && m.P.BehaviourPenaltyWeight != 0 && p.bp > m.P.BehaviourPenaltyThreshold {
		e := p.bp - m.P.BehaviourPenaltyThreshold
		total += e * e * m.P.BehaviourPenaltyWeight
	}
	return total
}

// decay: the periodic refresh, at the instant of the decay tick.
func (m *refModel) decay(now time.Duration) {
	dz := m.P.DecayToZero
	for i, p := range m.peers {
		if !p.connected {
			if now > p.expire {
				m.dropIPs(i)
				delete(m.peers, i)
			}
			continue
		}
		for t, ts := range p.topics {
			tp := m.P.Topics[t]
			if tp == nil {
				continue
			}
			dec := func(v *float64, f float64) {
				*v *= f
				if *v < dz {
					*v = 0
				}
			}
			dec(&ts.fmd, tp.FirstMessageDeliveriesDecay)
			dec(&ts.mmd, tp.MeshMessageDeliveriesDecay)
			dec(&ts.mfp, tp.MeshFailurePenaltyDecay)
			dec(&ts.imd, tp.InvalidMessageDeliveriesDecay)
			if ts.inMesh {
				ts.meshTime = now - ts.graftTime
				if ts.meshTime > tp.MeshMessageDeliveriesActivation {
					ts.active = true
				}
			}
		}
		p.bp *= m.P.BehaviourPenaltyDecay
		if p.bp < dz {
			p.bp = 0
		}
	}
}

func (m *refModel) dropIPs(i int) {
	p := m.peers[i]
	if p == nil {
		return
	}
	for _, ip := range p.ips {
		delete(m.ipSet[ip], i)
		if len(m.ipSet[ip]) == 0 {
			delete(m.ipSet, ip)
		}
	}
}

func (m *refModel) setIPs(i int, ips []string) {
	m.dropIPs(i)
	m.peers[i].ips = ips
	for _, ip := range ips {
		if m.ipSet[ip] == nil {
			m.ipSet[ip] = map[int]bool{}
		}
		m.ipSet[ip][i] = true
	}
}

func (m *refModel) firstDelivery(i int, t string) {
	p := m.peers[i]
	if p == nil {
		return
	}
	ts := m.topicStats(p, t)
	if ts == nil {
		return
	}
	tp := m.P.Topics[t]
	ts.fmd = math.Min(ts.fmd+1, tp.FirstMessageDeliveriesCap)
	if ts.inMesh {
		ts.mmd = math.Min(ts.mmd+1, tp.MeshMessageDeliveriesCap)
	}
}

func (m *refModel) dupDelivery(i int, t string, validated time.Duration, inValidation bool) {
	p := m.peers[i]
	if p == nil {
		return
	}
	ts := m.topicStats(p, t)
	if ts == nil || !ts.inMesh {
		return
	}
	tp := m.P.Topics[t]
	if !inValidation && m.now()-validated > tp.MeshMessageDeliveriesWindow {
		return
	}
	ts.mmd = math.Min(ts.mmd+1, tp.MeshMessageDeliveriesCap)
}

func (m *refModel) invalid(i int, t string) {
	p := m.peers[i]
	if p == nil {
		return
	}
	if ts := m.topicStats(p, t); ts != nil {
		ts.imd++
	}
}

// infKnob: plans are JSON, which has no infinity; 1e300 and above stands for +Inf.
func infKnob(v float64) float64 {
	if v >= 1e300 {
		return math.Inf(1)
	}
	return v
}

// ---- world -------------------------------------------------------------------------------------

func c10Params(p *Plan, app func(peer.ID) float64) (*PeerScoreParams, []string) {
	nt := p.ki("ntopics", 1)
	sp := &PeerScoreParams{
		SkipAtomicValidation:        p.kb("skip_atomic"),
		Topics:                      map[string]*TopicScoreParams{},
		TopicScoreCap:               p.k("topic_cap", 0),
		AppSpecificScore:            app,
		AppSpecificWeight:           p.k("app_weight", 0),
		IPColocationFactorWeight:    p.k("ip_weight", 0),
		IPColocationFactorThreshold: p.ki("ip_threshold", 1),
		BehaviourPenaltyWeight:      p.k("bp_weight", 0),
		BehaviourPenaltyThreshold:   p.k("bp_threshold", 0),
		BehaviourPenaltyDecay:       p.k("bp_decay", 0.9),
		DecayInterval:               time.Second,
		DecayToZero:                 p.k("decay_to_zero", 0.01),
		RetainScore:                 time.Duration(p.ki("retain_s", 10)) * time.Second,
		SeenMsgTTL:                  30 * time.Minute,
	}
	if p.kb("ip_whitelist") {
		_, n, _ := net.ParseCIDR("10.9.1.0/24")
		sp.IPColocationFactorWhitelist = []*net.IPNet{n}
	}
	var names []string
	for t := 0; t < nt; t++ {
		k := func(n string) float64 { return p.k(fmt.Sprintf("t%d_%s", t, n), 0) }
		tp := &TopicScoreParams{
			SkipAtomicValidation:            k("skip") != 0,
			TopicWeight:                     k("weight"),
			TimeInMeshWeight:                k("p1w"),
			TimeInMeshQuantum:               time.Duration(k("p1q_ms")) * time.Millisecond,
			TimeInMeshCap:                   k("p1cap"),
			FirstMessageDeliveriesWeight:    k("p2w"),
			FirstMessageDeliveriesDecay:     k("p2d"),
			FirstMessageDeliveriesCap:       k("p2cap"),
			MeshMessageDeliveriesWeight:     k("p3w"),
			MeshMessageDeliveriesDecay:      k("p3d"),
			MeshMessageDeliveriesCap:        k("p3cap"),
			MeshMessageDeliveriesThreshold:  infKnob(k("p3thr")),
			MeshMessageDeliveriesWindow:     time.Duration(k("p3win_ms")) * time.Millisecond,
			MeshMessageDeliveriesActivation: time.Duration(k("p3act_ms")) * time.Millisecond,
			MeshFailurePenaltyWeight:        k("p3bw"),
			MeshFailurePenaltyDecay:         k("p3bd"),
			InvalidMessageDeliveriesWeight:  k("p4w"),
			InvalidMessageDeliveriesDecay:   k("p4d"),
		}
		name := fmt.Sprintf("t%d", t)
		sp.Topics[name] = tp
		names = append(names, name)
	}
	return sp, names
}

func runC10(s *sim) {
	p := s.plan
	np := p.ki("npeers", 1)
	app := map[peer.ID]float64{}
	sp, topics := c10Params(p, func(id peer.ID) float64 { return app[id] })
	if err := sp.validate(); err != nil {
		// the library refuses this parameter set: nothing to check (counted)
		s.probe("params_rejected_by_validation")
		s.class = "rejected"
		return
	}
	for _, t := range topics {
		tp := sp.Topics[t]
		if tp.TimeInMeshQuantum == 0 || tp.FirstMessageDeliveriesDecay == 0 || tp.MeshMessageDeliveriesCap == 0 {
			s.probe("partially_specified_topic_params")
		}
	}
	ctx, cancel := context.WithCancel(context.Background())
	defer cancel()
	// scorer's host with one connection per peer
	kr := newPrng(p.Seed, "c10keys")
	h := s.newHost("H", genKey(kr, 0), "10.0.0.1")
	h.fake = true
	var ids []peer.ID
	var hosts []*simHost
	for i := 0; i < np; i++ {
		fh := s.newHost(fmt.Sprintf("P%d", i), genKey(kr, 0), "10.9.0.1")
		fh.fake = true
		hosts = append(hosts, fh)
		ids = append(ids, fh.id)
	}
	// the model keeps its own copy of the parameters: what the library does to the structs it was
	// given (they may be shared between topics, below) must not reach the model
	mp := *sp
	mp.Topics = map[string]*TopicScoreParams{}
	for t, tp := range sp.Topics {
		c := *tp
		mp.Topics[t] = &c
	}
	if p.kb("shared_topic_params") && len(topics) > 1 {
		// one parameter struct for all topics, as a configuration built in a loop over topic names has
		shared := sp.Topics[topics[0]]
		for _, t := range topics {
			sp.Topics[t] = shared
			c := *shared
			mp.Topics[t] = &c
		}
		s.probe("topics_share_one_parameter_struct")
	}
	ps := newPeerScore(sp, discardLogger)
	ps.host = h
	created := s.now()
	go ps.background(ctx)
	m := &refModel{P: &mp, peers: map[int]*refPeer{}, ipOf: map[int]string{}, ipSet: map[string]map[int]bool{}, app: map[int]float64{}, now: s.now, wl: sp.IPColocationFactorWhitelist}
	ipPool := []string{"10.9.0.7", "10.9.0.7", "10.9.1.5"} // two peers may share an address; the third is in the whitelisted net
	// message bookkeeping
	type msgRec struct {
		m     *Message
		topic string
		first int
		rec   *refRecord
		done  bool
	}
	var msgs []*msgRec
	seq := 0
	mkMsg := func(from int, topic string) *Message {
		seq++
		sq := make([]byte, 8)
		sq[7], sq[6] = byte(seq), byte(seq>>8)
		return &Message{Message: &pb.Message{From: []byte(ids[from]), Seqno: sq, Topic: &topic, Data: []byte{1}}, ReceivedFrom: ids[from]}
	}
	nChecks := 0
	ticks := 0
	// run the clock to `target`, applying the model's decay at every decay tick of the real ticker
	cips := map[int][]string{} // addresses of the live connections of each peer, in connection order
	applyRefresh := func() {
		// the scorer re-reads every connected peer's addresses once a minute
		for i := 0; i < np; i++ {
			if mp := m.peers[i]; mp != nil && mp.connected {
				m.setIPs(i, append([]string(nil), cips[i]...))
			}
		}
	}
	advance := func(d time.Duration) {
		target := s.now() + d
		for {
			k := (s.now()-created)/sp.DecayInterval + 1
			next := created + k*sp.DecayInterval
			kr := (s.now()-created)/time.Minute + 1
			nextR := created + kr*time.Minute
			if nextR <= next && nextR <= target {
				s.run(nextR + 1)
				s.settle()
				applyRefresh()
				s.probe("ip_refresh_tick")
				if nextR < next {
					continue
				}
			}
			if next > target {
				break
			}
			s.run(next + 1)
			s.settle()
			m.decay(next)
			ticks++
		}
		s.run(target)
		s.settle()
	}
	compare := func(where string) {
		for i := 0; i < np; i++ {
			got := ps.Score(ids[i])
			want := m.score(i, "")
			nChecks++
			if math.IsNaN(got) || math.IsInf(got, 0) {
				s.violate("C10", "nan", "C10/score-not-finite", "%s: Score(P%d) = %v", where, i, got)
				continue
			}
			tol := 1e-9 * math.Max(1, math.Max(math.Abs(got), math.Abs(want)))
			if math.Abs(got-want) > tol {
				s.violate("C10", "score", "C10/score-differs", "%s: Score(P%d) = %v, the v1.1 function of its history gives %v (diff %g)", where, i, got, want, got-want)
			}
			// counters within bounds; penalties only lower the score
			ps.Lock()
			st := ps.peerStats[ids[i]]
			mp := m.peers[i]
			if (st == nil) != (mp == nil) {
				s.violate("C10", "retention", "C10/retention-differs", "%s: scorer tracks P%d = %v, model = %v (positive scores are dropped on disconnect, non-positive retained for RetainScore)", where, i, st != nil, mp != nil)
			}
			if st != nil && mp != nil {
				for t, ts := range st.topics {
					tp := m.P.Topics[t]
					mt := mp.topics[t]
					if tp == nil || mt == nil {
						continue
					}
					if ts.firstMessageDeliveries < 0 || ts.meshMessageDeliveries < 0 || ts.meshFailurePenalty < 0 || ts.invalidMessageDeliveries < 0 {
						s.violate("C10", "counter", "C10/counter-negative", "%s: a counter of P%d/%s is negative", where, i, t)
					}
					if (tp.FirstMessageDeliveriesCap > 0 && ts.firstMessageDeliveries > tp.FirstMessageDeliveriesCap+1e-12) || (tp.MeshMessageDeliveriesCap > 0 && ts.meshMessageDeliveries > tp.MeshMessageDeliveriesCap+1e-12) {
						s.violate("C10", "counter", "C10/counter-above-cap", "%s: a counter of P%d/%s exceeds its cap (fmd %v cap %v, mmd %v cap %v)", where, i, t, ts.firstMessageDeliveries, tp.FirstMessageDeliveriesCap, ts.meshMessageDeliveries, tp.MeshMessageDeliveriesCap)
					}
					for _, c := range [][3]float64{{ts.firstMessageDeliveries, mt.fmd, 1}, {ts.meshMessageDeliveries, mt.mmd, 2}, {ts.meshFailurePenalty, mt.mfp, 3}, {ts.invalidMessageDeliveries, mt.imd, 4}} {
						if math.Abs(c[0]-c[1]) > 1e-9*math.Max(1, math.Abs(c[1])) {
							s.violate("C10", "counter", fmt.Sprintf("C10/counter-differs/%d", int(c[2])), "%s: counter %d of P%d/%s is %v, model %v", where, int(c[2]), i, t, c[0], c[1])
						}
					}
				}
				if math.Abs(st.behaviourPenalty-mp.bp) > 1e-9*math.Max(1, mp.bp) {
					s.violate("C10", "counter", "C10/counter-differs/bp", "%s: behaviour penalty of P%d is %v, model %v", where, i, st.behaviourPenalty, mp.bp)
				}
			}
			ps.Unlock()
			for _, comp := range []string{"p3", "p3b", "p4", "p6", "p7"} {
				if w2 := m.score(i, comp); w2 < want-1e-9*math.Max(1, math.Abs(want)) {
					s.violate("C10", "monotone", "C10/penalty-raises-score/"+comp, "%s: removing penalty component %s lowers the score of P%d from %v to %v", where, comp, i, want, w2)
				}
			}
		}
	}
	resolveRecord := func(r *msgRec, outcome int) {
		// outcome: 0 deliver, 1 reject(validation failed), 2 ignore, 3 throttled
		if r.done {
			return
		}
		r.done = true
		msg := r.m
		switch outcome {
		case 0:
			ps.DeliverMessage(msg)
			m.firstDelivery(r.first, r.topic)
			r.rec.status, r.rec.validated = 1, s.now()
			for q := range r.rec.peers {
				if q != r.first {
					m.dupDelivery(q, r.topic, 0, true)
				}
			}
		case 1:
			ps.RejectMessage(msg, RejectValidationFailed)
			r.rec.status = 2
			m.invalid(r.first, r.topic)
			for q := range r.rec.peers {
				m.invalid(q, r.topic)
			}
			r.rec.peers = map[int]bool{}
		case 2:
			ps.RejectMessage(msg, RejectValidationIgnored)
			r.rec.status = 3
			r.rec.peers = map[int]bool{}
		default:
			ps.RejectMessage(msg, RejectValidationThrottled)
			r.rec.status = 4
			r.rec.peers = map[int]bool{}
		}
	}
	for _, it := range p.Items {
		if len(s.viol) > 0 {
			break
		}
		s.steps++
		i := int(it.a(0))
		switch it.Op {
		case "adv":
			advance(time.Duration(it.a(0)) * time.Millisecond)
			compare("after advance")
			continue
		case "connect":
			if i >= np {
				continue
			}
			if mp := m.peers[i]; mp != nil && mp.connected {
				continue
			}
			ip := ipPool[int(it.a(1))%len(ipPool)]
			if len(h.conns[ids[i]]) == 0 {
				hosts[i].addr = maddr(ip)
				s.connect(hosts[i], h, false)
				cips[i] = []string{ip}
			}
			ps.OnNewOutboundStream(ids[i], GossipSubID_v11)
			if m.peers[i] == nil {
				m.peers[i] = &refPeer{topics: map[string]*refTopic{}}
			} else {
				s.probe("reconnect_inside_retention")
			}
			m.peers[i].connected = true
			m.setIPs(i, append([]string(nil), cips[i]...))
			if len(m.ipSet[ip]) > sp.IPColocationFactorThreshold {
				s.probe("ip_colocation_surplus")
			}
		case "disconnect":
			mp := m.peers[i]
			if mp == nil || !mp.connected {
				continue
			}
			s.disconnect(hosts[i], h)
			cips[i] = nil
			s.run(s.now())
			// retention rule: positive scores are dropped at once, non-positive retained
			sc := m.score(i, "")
			ps.OnClosedOutboundStream(ids[i])
			if sc > 0 {
				m.dropIPs(i)
				delete(m.peers, i)
				s.probe("positive_score_dropped_on_disconnect")
			} else {
				for t, ts := range mp.topics {
					ts.fmd = 0
					tp := m.P.Topics[t]
					if ts.inMesh && ts.active && ts.mmd < tp.MeshMessageDeliveriesThreshold {
						d := tp.MeshMessageDeliveriesThreshold - ts.mmd
						ts.mfp += d * d
					}
					ts.inMesh = false
				}
				mp.connected = false
				mp.expire = s.now() + sp.RetainScore
				s.probe("non_positive_score_retained")
			}
		case "graft":
			mp := m.peers[i]
			t := topics[int(it.a(1))%len(topics)]
			if mp == nil || !mp.connected {
				continue
			}
			if ts := mp.topics[t]; ts != nil && ts.inMesh {
				continue
			}
			ps.Graft(ids[i], t)
			if ts := m.topicStats(mp, t); ts != nil {
				ts.inMesh, ts.graftTime, ts.meshTime, ts.active = true, s.now(), 0, false
			}
		case "prune":
			mp := m.peers[i]
			t := topics[int(it.a(1))%len(topics)]
			if mp == nil || !mp.connected || mp.topics[t] == nil || !mp.topics[t].inMesh {
				continue
			}
			ps.Prune(ids[i], t)
			ts := mp.topics[t]
			tp := m.P.Topics[t]
			if ts.active && ts.mmd < tp.MeshMessageDeliveriesThreshold {
				d := tp.MeshMessageDeliveriesThreshold - ts.mmd
				ts.mfp += d * d
				s.probe("sticky_mesh_failure_penalty")
			}
			ts.inMesh = false
		case "msg":
			mp := m.peers[i]
			if mp == nil || !mp.connected {
				continue
			}
			t := topics[int(it.a(1))%len(topics)]
			msg := mkMsg(i, t)
			r := &msgRec{m: msg, topic: t, first: i, rec: &refRecord{peers: map[int]bool{}, first: i, topic: t}}
			msgs = append(msgs, r)
			ps.ValidateMessage(msg)
			switch it.a(2) {
			case 0, 1:
				resolveRecord(r, 0) // delivered at once
			case 2:
				resolveRecord(r, 1)
			case 3:
				resolveRecord(r, 2)
			default:
				// stays in validation: finished later by a "finish" item
			}
		case "finish":
			var pend []*msgRec
			for _, r := range msgs {
				if !r.done {
					pend = append(pend, r)
				}
			}
			if len(pend) == 0 {
				continue
			}
			r := pend[int(it.a(0))%len(pend)]
			if len(r.rec.peers) > 0 {
				s.probe("verdict_after_duplicates_queued")
			}
			resolveRecord(r, int(it.a(1)))
		case "dup":
			mp := m.peers[i]
			if mp == nil || !mp.connected || len(msgs) == 0 {
				continue
			}
			k := len(msgs) - 1 - int(it.a(1))%mini(len(msgs), 8)
			r := msgs[k]
			dm := &Message{Message: r.m.Message, ReceivedFrom: ids[i]}
			ps.DuplicateMessage(dm)
			// model
			if r.rec.peers[i] {
				break // already counted for this peer
			}
			switch r.rec.status {
			case 0:
				r.rec.peers[i] = true
			case 1:
				r.rec.peers[i] = true
				tp := m.P.Topics[r.topic]
				if tp != nil && s.now()-r.rec.validated == tp.MeshMessageDeliveriesWindow {
					s.probe("duplicate_exactly_at_window_edge")
				}
				m.dupDelivery(i, r.topic, r.rec.validated, false)
			case 2:
				m.invalid(i, r.topic)
			}
		case "rejectdup":
			mp := m.peers[i]
			if mp == nil || !mp.connected || len(msgs) == 0 {
				continue
			}
			r := msgs[len(msgs)-1-int(it.a(1))%mini(len(msgs), 8)]
			reason := []string{RejectInvalidSignature, RejectMissingSignature, RejectSelfOrigin}[int(it.a(2))%3]
			// such copies are not tracked per message: the sender is charged, the record of the ID
			// (pending, delivered or rejected) is not touched
			ps.RejectMessage(&Message{Message: r.m.Message, ReceivedFrom: ids[i]}, reason)
			m.invalid(i, r.topic)
			s.probe("signature_reject_of_known_id")
		case "redeliver":
			mp := m.peers[i]
			if mp == nil || !mp.connected {
				continue
			}
			var fin []*msgRec
			for _, r := range msgs {
				if r.done {
					fin = append(fin, r)
				}
			}
			if len(fin) == 0 {
				continue
			}
			r := fin[len(fin)-1-int(it.a(1))%mini(len(fin), 8)]
			// the ID left the seen cache and arrives again while the scorer still holds its record:
			// the pipeline treats it as a new message, its forwarder is the first deliverer
			dm := &Message{Message: r.m.Message, ReceivedFrom: ids[i]}
			ps.ValidateMessage(dm)
			ps.DeliverMessage(dm)
			m.firstDelivery(i, r.topic)
			s.probe("delivery_of_id_with_final_record")
		case "conn2":
			mp := m.peers[i]
			if mp == nil || !mp.connected || len(cips[i]) != 1 {
				continue
			}
			ip := []string{"10.9.0.7", "10.9.0.8", "10.9.1.5", "10.9.0.9"}[int(it.a(1))%4]
			if ip == cips[i][0] {
				continue // the same address twice is another question (see DESIGN.md, observations)
			}
			hosts[i].addr = maddr(ip)
			s.connect(hosts[i], h, false)
			cips[i] = append(cips[i], ip)
			s.probe("second_connection_from_other_address")
		case "disc2":
			mp := m.peers[i]
			if mp == nil || !mp.connected || len(cips[i]) != 2 {
				continue
			}
			k := int(it.a(1)) % 2
			h.mu.Lock()
			cs := append([]*simConn(nil), h.conns[ids[i]]...)
			h.mu.Unlock()
			if len(cs) != 2 {
				continue
			}
			s.closeConn(cs[k])
			s.run(s.now())
			cips[i] = append([]string(nil), cips[i][1-k])
			s.probe("one_of_two_connections_closed")
		case "penalty":
			if mp := m.peers[i]; mp != nil {
				ps.AddPenalty(ids[i], int(it.a(1)))
				mp.bp += float64(it.a(1))
			} else {
				ps.AddPenalty(ids[i], int(it.a(1)))
			}
		case "appscore":
			app[ids[i%np]] = float64(it.a(1))
			m.app[i%np] = float64(it.a(1))
		case "rejectnow":
			// rejections that never enter validation
			mp := m.peers[i]
			if mp == nil || !mp.connected {
				continue
			}
			t := topics[int(it.a(1))%len(topics)]
			msg := mkMsg(i, t)
			reason := []string{RejectMissingSignature, RejectInvalidSignature, RejectSelfOrigin, RejectValidationQueueFull, RejectBlacklstedPeer}[int(it.a(2))%5]
			ps.RejectMessage(msg, reason)
			if int(it.a(2))%5 < 3 {
				m.invalid(i, t)
			}
		case "recap":
			t := topics[int(it.a(0))%len(topics)]
			old := m.P.Topics[t]
			np2 := *old
			switch it.a(1) {
			case 0:
				np2.FirstMessageDeliveriesCap = math.Max(0.5, old.FirstMessageDeliveriesCap/2)
			case 1:
				np2.MeshMessageDeliveriesCap = math.Max(0.5, old.MeshMessageDeliveriesCap/2)
			default:
				np2.FirstMessageDeliveriesCap = math.Max(0.5, old.FirstMessageDeliveriesCap/2)
				np2.MeshMessageDeliveriesCap = math.Max(0.5, old.MeshMessageDeliveriesCap/2)
			}
			if np2.validate() != nil {
				continue
			}
			if np2.MeshMessageDeliveriesCap < np2.MeshMessageDeliveriesThreshold && np2.MeshMessageDeliveriesWeight != 0 {
				// keep the parameter set sensible (cap >= threshold is not validated but assumed by the spec)
			}
			ps.SetTopicScoreParams(t, &np2)
			mc := np2
			m.P.Topics[t] = &mc
			// model: counters above a lowered cap are cut to the cap
			for _, mp := range m.peers {
				if ts := mp.topics[t]; ts != nil {
					if ts.fmd > np2.FirstMessageDeliveriesCap {
						ts.fmd = np2.FirstMessageDeliveriesCap
						s.probe("cap_lowered_below_live_counter")
					}
					if ts.mmd > np2.MeshMessageDeliveriesCap {
						ts.mmd = np2.MeshMessageDeliveriesCap
						s.probe("cap_lowered_below_live_counter")
					}
				}
			}
		}
		compare("after " + it.Op)
	}
	cancel()
	s.settle()
	s.nontrivial = nChecks > 0 && ticks > 0
	s.class = fmt.Sprintf("%x", shortHash([]byte(c02ClassStr(p)+fmt.Sprint(p.Knobs))))
	s.sample = map[string]any{"peers": np, "topics": len(topics), "events": len(p.Items), "decay_ticks": ticks, "score_comparisons": nChecks}
}
