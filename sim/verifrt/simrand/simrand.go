// Package simrand replaces math/rand in simulator builds: every draw comes from a stream
// derived from the run seed.
package simrand

import (
	mrand "math/rand"
	"sync"
	"sync/atomic"

	"github.com/libp2p/go-libp2p-pubsub/internal/verifrt"
)

type Rand = mrand.Rand
type Source = mrand.Source

var (
	mu    sync.Mutex
	r     = mrand.New(mrand.NewSource(1))
	seed  uint64
	keyed = map[string]uint64{}
	// Draws counts draws (evidence only).
	Draws atomic.Uint64
)

// Reseed resets all streams for a new run.
func Reseed(s uint64) {
	mu.Lock()
	defer mu.Unlock()
	seed = s
	r = mrand.New(mrand.NewSource(int64(verifrt.HashBytes(s, "simrand"))))
	keyed = map[string]uint64{}
}

func Intn(n int) int {
	mu.Lock()
	defer mu.Unlock()
	Draws.Add(1)
	return r.Intn(n)
}

func Int63() int64 {
	mu.Lock()
	defer mu.Unlock()
	Draws.Add(1)
	return r.Int63()
}

func Int63n(n int64) int64 {
	mu.Lock()
	defer mu.Unlock()
	Draws.Add(1)
	return r.Int63n(n)
}

func Int31n(n int32) int32 {
	mu.Lock()
	defer mu.Unlock()
	Draws.Add(1)
	return r.Int31n(n)
}

func Int() int {
	mu.Lock()
	defer mu.Unlock()
	Draws.Add(1)
	return r.Int()
}

func Float64() float64 {
	mu.Lock()
	defer mu.Unlock()
	Draws.Add(1)
	return r.Float64()
}

func Perm(n int) []int {
	mu.Lock()
	defer mu.Unlock()
	Draws.Add(1)
	return r.Perm(n)
}

func Shuffle(n int, swap func(i, j int)) {
	mu.Lock()
	defer mu.Unlock()
	Draws.Add(1)
	r.Shuffle(n, swap)
}

// IntnKeyed draws from a stream private to key, so that goroutines that draw concurrently
// for different keys do not influence each other.
func IntnKeyed(n int, key string) int {
	mu.Lock()
	c := keyed[key]
	keyed[key] = c + 1
	s := seed
	mu.Unlock()
	Draws.Add(1)
	var b [8]byte
	for i := 0; i < 8; i++ {
		b[i] = byte(c >> (8 * i))
	}
	return int(verifrt.HashBytes(s, "keyed|"+key+"|"+string(b[:])) % uint64(n))
}

func New(src Source) *Rand { return mrand.New(src) }

func NewSource(s int64) Source { return mrand.NewSource(s) }
