// Package verifrt is the runtime support for sources rewritten by vrewrite.
// It exists only in simulator builds (mapped into /repo/internal/verifrt through -overlay).
package verifrt

import (
	"encoding/binary"
	"fmt"
	"iter"
	"reflect"
	"sort"
	"sync/atomic"
)

var seed atomic.Uint64

// MapRanges counts executions of rewritten map ranges (evidence only).
var MapRanges atomic.Uint64

// SetSeed sets the seed that determines canonical map iteration order.
func SetSeed(s uint64) { seed.Store(s) }

func mix(h uint64) uint64 {
	h ^= h >> 33
	h *= 0xff51afd7ed558ccd
	h ^= h >> 33
	h *= 0xc4ceb9fe1a85ec53
	h ^= h >> 33
	return h
}

// HashBytes is a seeded 64-bit hash (FNV-1a core + finaliser).
func HashBytes(s uint64, b string) uint64 {
	h := uint64(14695981039346656037) ^ mix(s+0x9e3779b97f4a7c15)
	for i := 0; i < len(b); i++ {
		h ^= uint64(b[i])
		h *= 1099511628211
	}
	return mix(h)
}

func keyString[K comparable](k K) string {
	switch x := any(k).(type) {
	case string:
		return x
	case int:
		var b [8]byte
		binary.BigEndian.PutUint64(b[:], uint64(x))
		return string(b[:])
	case uint64:
		var b [8]byte
		binary.BigEndian.PutUint64(b[:], x)
		return string(b[:])
	}
	v := reflect.ValueOf(k)
	switch v.Kind() {
	case reflect.String:
		return v.String()
	case reflect.Int, reflect.Int8, reflect.Int16, reflect.Int32, reflect.Int64:
		var b [8]byte
		binary.BigEndian.PutUint64(b[:], uint64(v.Int()))
		return string(b[:])
	case reflect.Uint, reflect.Uint8, reflect.Uint16, reflect.Uint32, reflect.Uint64:
		var b [8]byte
		binary.BigEndian.PutUint64(b[:], v.Uint())
		return string(b[:])
	}
	return fmt.Sprintf("%#v", k)
}

type kh[K any] struct {
	k K
	h uint64
	s string
}

// Sorted iterates over m in an order that is a pure function of (seed, key bytes).
// Keys are snapshotted at loop entry; a key deleted before it is reached is skipped; keys
// inserted during the loop are not visited. Every behaviour is a legal behaviour of Go's
// native map range.
func Sorted[M ~map[K]V, K comparable, V any](m M) iter.Seq2[K, V] {
	return func(yield func(K, V) bool) {
		MapRanges.Add(1)
		if len(m) == 0 {
			return
		}
		s := seed.Load()
		ks := make([]kh[K], 0, len(m))
		for k := range m {
			str := keyString(k)
			ks = append(ks, kh[K]{k, HashBytes(s, str), str})
		}
		sort.Slice(ks, func(i, j int) bool {
			if ks[i].h != ks[j].h {
				return ks[i].h < ks[j].h
			}
			return ks[i].s < ks[j].s
		})
		for _, e := range ks {
			v, ok := m[e.k]
			if !ok {
				continue
			}
			if !yield(e.k, v) {
				return
			}
		}
	}
}
