package pubsub

// C04 — validator verdicts decide delivery, forwarding and penalties.
// W-NODE with up to four simulator-owned validators (default + topic, inline or asynchronous,
// time-outs, concurrency limits), verdicts and parking fixed per (validator, message) by the
// seed, completion order chosen by release items.

import (
	"context"
	"fmt"
	"math"
	"sort"
	"time"

	pb "github.com/libp2p/go-libp2p-pubsub/pb"
	"github.com/libp2p/go-libp2p/core/peer"
)

func init() {
	registerProp("C04", genC04, map[string]func(*sim){"node": runC04})
}

func genC04(seed uint64, tier string) *Plan {
	r := newPrng(seed, "c04")
	p := &Plan{World: "node", Knobs: map[string]float64{}, SK: map[string]string{}}
	p.SK["router"] = []string{"gossipsub", "gossipsub", "floodsub"}[r.intn(3)]
	p.Knobs["ntopics"] = float64(r.rng(1, 2))
	p.Knobs["scoring"] = 1
	p.Knobs["c04_topic_score"] = 1
	p.Knobs["hb_ms"] = 1000
	p.Knobs["seen_ttl_ms"] = 600000
	genDegrees(r, p, 4)
	nd := r.rng(0, 3)
	p.Knobs["nval_default"] = float64(nd)
	p.Knobs["topic_val"] = float64(b2i(r.chance(0.7) || nd == 0))
	p.Knobs["topic_val_all"] = float64(b2i(r.chance(0.5)))
	for j := 0; j < 4; j++ {
		p.Knobs[fmt.Sprintf("v%d_inline", j)] = float64(b2i(r.chance(0.4)))
		if r.chance(0.25) {
			p.Knobs[fmt.Sprintf("v%d_timeout_ms", j)] = float64(r.rng(50, 2000))
		}
		if r.chance(0.4) {
			p.Knobs[fmt.Sprintf("v%d_conc", j)] = float64(r.rng(1, 3))
		}
	}
	if r.chance(0.4) {
		p.Knobs["val_throttle"] = float64(r.rng(1, 4))
	}
	if r.chance(0.4) {
		p.Knobs["val_queue"] = float64(r.rng(1, 8))
	}
	p.Knobs["workers"] = float64(r.rng(1, 3))
	p.Knobs["p_park"] = []float64{0, 0.3, 0.6, 0.9}[r.intn(4)]
	p.Knobs["p_reject"] = []float64{0.1, 0.2, 0.35}[r.intn(3)]
	p.Knobs["p_ignore"] = []float64{0.05, 0.15, 0.25}[r.intn(3)]
	p.Knobs["p_weird"] = []float64{0, 0.05, 0.1}[r.intn(3)]
	p.Knobs["val_ctx_keep"] = float64(r.intn(2))
	nt := p.ki("ntopics", 1)
	add := func(op string, a ...int64) { p.Items = append(p.Items, Item{Op: op, A: a}) }
	add("node-sub", 0)
	if r.chance(0.4) {
		add("node-sub", 0)
	}
	if nt > 1 && r.chance(0.7) {
		add("node-sub", 1)
	}
	np := r.rng(2, 5)
	for i := 0; i < np; i++ {
		version := int64(r.intn(3))
		if i == 0 || r.chance(0.3) {
			version = 4 // floodsub-only: forwarding to it is required whenever it is in the topic
		}
		add("peer", int64(i), version, int64(r.intn(2)), int64(i))
		add("identify", int64(i))
		add("adv", 5)
		add("open", int64(i))
		for t := 0; t < nt; t++ {
			add("sub", int64(i), int64(t))
		}
	}
	add("adv", 1200)
	n := r.rng(8, 30)
	if tier == "thorough" {
		n = r.rng(8, 70)
	}
	for k := 0; k < n; k++ {
		i := int64(r.intn(np))
		t := int64(r.intn(nt))
		x := r.intn(100)
		switch {
		case x < 28:
			add("pub", i, t, int64(r.rng(8, 120)))
		case x < 36:
			add("fwd", i, t, int64(r.rng(8, 120)), int64(r.intn(np)))
		case x < 52:
			add("resend", i, int64(r.intn(6)))
		case x < 60:
			add("node-pub", t, int64(r.rng(8, 100)))
		case x < 85:
			add("release", int64(r.intn(6)))
		case x < 88:
			add("adv", int64(r.rng(10, 900)))
		case x < 90:
			add("disconnect", i) // a forwarder leaves while its message may still be in validation
		case x < 92:
			add("reconnect", i, int64(r.intn(2)))
			add("identify", i)
			add("adv", 5)
			add("open", i)
			add("sub", i, t)
		case x < 94:
			add("adv", int64(r.rng(900, 3000)))
		case x < 96:
			// the author (not the forwarder) of a message that may sit in validation is blacklisted
			add("fwd", i, t, int64(r.rng(8, 120)), int64((int(i)+1)%np))
			add("blacklist", int64((int(i)+1)%np))
		default:
			add("release-all")
		}
	}
	return p
}

func runC04(s *sim) {
	w := newNodeWorld(s)
	p := w.plan
	var extra []Option
	if err := w.startNodeC04(extra...); err != nil {
		s.violate("SIM", "setup", "SIM/setup", "node creation failed: %v", err)
		return
	}
	type copyRec struct {
		from peer.ID
		t    time.Duration
		fake int
	}
	copies := map[string][]copyRec{} // mid -> copies sent by fakes (delivered to the node's reader)
	topicOf := map[string]string{}
	type localRec struct {
		c     *call
		topic string
		data  []byte
	}
	var locals []localRec

	// record copies sent by the fakes
	w.beforeItem = append(w.beforeItem, func(it Item) {})
	sendHook := func(fp *fakePeer, m *pb.Message) {
		mid := midOf(m)
		copies[mid] = append(copies[mid], copyRec{fp.id, s.now(), 0})
		topicOf[mid] = m.GetTopic()
	}
	w.onFakePub = sendHook

	w.atEnd = append(w.atEnd, func() {
		// drain: release every parked validation (several rounds: chains of validators), let
		// time-outs fire, then judge every message
		// (with one worker and inline validators a single gate is parked at a time, so the number
		// of rounds is the number of validator calls still to come: bounded by the work, not by a
		// constant -- a constant of 64 left a backlog unjudged and raised a false alarm once in a
		// million runs, see DESIGN 0.5)
		drained := false
		for round := 0; round < 8192; round++ {
			g := s.parkedGates()
			if len(g) == 0 {
				drained = true
				break
			}
			for _, x := range g {
				s.release(x, 0)
				s.settle()
			}
		}
		if !drained {
			s.probe("drain_incomplete_not_judged")
			return
		}
		s.advance(50 * time.Millisecond)
		s.settle()
		calls := w.calls()
		byMid := map[string][]valCall{}
		for _, c := range calls {
			byMid[c.mid] = append(byMid[c.mid], c)
		}
		// what reached the wire, per message id
		wire := map[string]map[peer.ID]int{}
		for _, fp := range w.allFakes() {
			for _, o := range fp.recv {
				for _, m := range o.rpc.GetPublish() {
					mid := midOf(m)
					if wire[mid] == nil {
						wire[mid] = map[peer.ID]int{}
					}
					wire[mid][fp.id]++
				}
			}
		}
		// deliveries per subscription
		deliv := map[string]map[int]int{}
		for _, ss := range w.n.subs {
			for _, m := range ss.messages() {
				mid := w.n.ps.idGen.ID(m)
				if deliv[mid] == nil {
					deliv[mid] = map[int]int{}
				}
				deliv[mid][ss.id]++
			}
		}
		// trace reasons (for throttle / queue-full attribution)
		reasons := map[string]map[string]int{}
		qfull := map[string]map[peer.ID]int{} // copies dropped at the door (validation queue full), per forwarder
		w.n.mu.Lock()
		for _, r := range w.n.raw {
			if r.kind == "reject" {
				if reasons[r.mid] == nil {
					reasons[r.mid] = map[string]int{}
				}
				reasons[r.mid][r.reason]++
				if r.reason == RejectValidationQueueFull {
					if qfull[r.mid] == nil {
						qfull[r.mid] = map[peer.ID]int{}
					}
					qfull[r.mid][r.from]++
				}
			}
		}
		w.n.mu.Unlock()
		applicable := func(topic string) []int {
			var out []int
			for _, v := range w.vals {
				if v.topic == "" || v.topic == topic {
					out = append(out, v.idx)
				}
			}
			return out
		}
		// peers the scorer knew during the whole run (outbound stream opened before any copy, never closed)
		steady := map[peer.ID]bool{}
		{
			first := map[peer.ID]time.Duration{}
			closed := map[peer.ID]bool{}
			w.n.mu.Lock()
			for _, r := range w.n.raw {
				switch r.kind {
				case "newout":
					if _, ok := first[r.p]; !ok {
						first[r.p] = r.t
					}
				case "closedout":
					closed[r.p] = true
				}
			}
			w.n.mu.Unlock()
			firstCopy := map[peer.ID]time.Duration{}
			for _, cs := range copies {
				for _, c := range cs {
					if t, ok := firstCopy[c.from]; !ok || c.t < t {
						firstCopy[c.from] = c.t
					}
				}
			}
			// scores are never positive in this configuration (application score 0, tiny negative topic
			// weight), so a forwarder's record is retained across a disconnect (RetainScore 10 min):
			// it must be penalised even when it has left by the time the verdict arrives
			for id, t := range first {
				if t <= firstCopy[id] {
					steady[id] = true
					if closed[id] {
						s.probe("forwarder_disconnected_during_run")
					}
				}
			}
		}
		expectInvalidMin := map[string]int{} // peer|topic
		expectInvalidMax := map[string]int{}
		var mids []string
		for mid := range copies {
			mids = append(mids, mid)
		}
		sort.Strings(mids)
		nJudged := 0
		for _, mid := range mids {
			topic := topicOf[mid]
			if w.n.ps.mySubs[topic] == nil {
				continue
			}
			cs := byMid[mid]
			app := applicable(topic)
			ran := map[int]ValidationResult{}
			for _, c := range cs {
				if c.local {
					continue
				}
				if _, dup := ran[c.val]; dup {
					s.violate("C04", "validator-once", "C04/validator-invoked-twice", "validator %d was invoked twice for message %x", c.val, shortHash([]byte(mid)))
				}
				ran[c.val] = c.verdict
			}
			throttled := reasons[mid][RejectValidationQueueFull] > 0 || reasons[mid][RejectValidationThrottled] > 0
			if throttled {
				s.probe("throttle_or_queue_full_traced")
				if p.k("p_park", 0) == 0 {
					// nothing ever parks in this run: the pipeline cannot be legitimately full
					s.violate("C04", "throttle", "C04/spurious-throttle", "message %x was dropped as throttled/queue-full (%v) although no validation ever blocks in this run", shortHash([]byte(mid)), reasons[mid])
				}
			}
			// a copy dropped because the validation queue was full is forgotten (not marked seen): the
			// message is judged on the copies that got through
			through := 0
			for _, c := range copies[mid] {
				through++
				_ = c
			}
			for _, n := range qfull[mid] {
				through -= n
			}
			if through <= 0 {
				s.probe("all_copies_dropped_queue_full")
			}
			anyReject, allAccept := false, len(ran) == len(app) && through > 0 && reasons[mid][RejectValidationThrottled] == 0
			for _, j := range app {
				v, ok := ran[j]
				if !ok {
					allAccept = false
					continue
				}
				switch v {
				case ValidationReject:
					anyReject = true
					allAccept = false
				case ValidationAccept:
				default:
					allAccept = false
				}
			}
			nJudged++
			sh := shortHash([]byte(mid))
			// --- delivery / forwarding ---
			nd := 0
			for _, c := range deliv[mid] {
				nd += c
			}
			live := 0
			for _, ss := range w.n.subs {
				if ss.topic == topic && !ss.canc {
					live++
				}
			}
			// a message whose author or a forwarder was blacklisted during the run is dropped wherever the
			// blacklist is consulted (before validation, and again when it leaves the pipeline): it is
			// exempt from "accepted implies delivered" and from the LOWER bounds on penalties; nothing
			// it causes may exceed the upper bounds
			touched := false
			if m := w.sent[mid]; m != nil && w.blacklisted[peer.ID(m.GetFrom())] {
				touched = true
			}
			for _, c := range copies[mid] {
				if w.blacklisted[c.from] {
					touched = true
				}
			}
			if touched {
				s.probe("message_touched_by_blacklist")
			}
			if allAccept && !touched {
				s.probe("verdict_accept")
				for _, ss := range w.n.subs {
					if ss.topic == topic && !ss.canc && deliv[mid][ss.id] != 1 {
						s.violate("C04", "deliver", "C04/accepted-not-delivered", "message %x: every validator accepted (%v) but subscription %d got %d copies", sh, ran, ss.id, deliv[mid][ss.id])
					}
				}
				// forwarded to floodsub peers in the topic other than sources/author
				srcs := map[peer.ID]bool{}
				for _, c := range copies[mid] {
					srcs[c.from] = true
				}
				for _, fp := range w.allFakes() {
					if fp.version != 4 || srcs[fp.id] || !fp.inAlive() || fp.stalledNow() || fp.disturbed {
						continue
					}
					if _, in := w.n.ps.topics[topic][fp.id]; !in {
						continue
					}
					if m := w.sent[mid]; m != nil && peer.ID(m.GetFrom()) == fp.id {
						continue
					}
					if wire[mid][fp.id] == 0 {
						s.violate("C04", "forward", "C04/accepted-not-forwarded", "message %x accepted but not forwarded to floodsub peer %s", sh, fp.name)
					} else {
						s.probe("forward_checked")
					}
				}
			} else if !allAccept {
				if nd != 0 {
					s.violate("C04", "deliver", "C04/delivered-without-accept", "message %x delivered %d times although verdicts were %v (applicable %v, queue/throttle reasons %v)", sh, nd, ran, app, reasons[mid])
				}
				if len(wire[mid]) != 0 {
					s.violate("C04", "forward", "C04/forwarded-without-accept", "message %x forwarded to %d peers although verdicts were %v (applicable %v)", sh, len(wire[mid]), ran, app)
				}
				switch {
				case anyReject:
					s.probe("verdict_reject")
				case len(ran) < len(app):
					s.probe("verdict_throttled_or_dropped")
				default:
					s.probe("verdict_ignore")
				}
			}
			// --- penalties: every forwarder of a rejected message, nobody otherwise ---
			if anyReject {
				per := map[peer.ID]int{}
				for _, c := range copies[mid] {
					per[c.from]++
				}
				for id, n := range qfull[mid] {
					per[id] -= n // copies the pipeline never saw
					if per[id] <= 0 {
						delete(per, id)
					}
				}
				if len(per) > 1 {
					s.probe("reject_with_several_forwarders")
				}
				if debugState && s.keepLog {
					s.logf("DEBUG c04 reject mid %x copies %d qfull %v per %v ran %v reasons %v touched %v", sh, len(copies[mid]), len(qfull[mid]), len(per), ran, reasons[mid], touched)
					for _, c := range copies[mid] {
						s.logf("DEBUG   copy from %s at %v steady %v", w.fakeByID(c.from).name, c.t, steady[c.from])
					}
				}
				for id, n := range per {
					k := string(id) + "|" + topic
					expectInvalidMax[k] += n
					if steady[id] && !touched {
						expectInvalidMin[k]++
					}
				}
			}
		}
		if gs := w.n.gs(); gs != nil && gs.score != nil {
			gs.score.Lock()
			for _, fp := range w.allFakes() {
				for _, t := range w.topics {
					k := string(fp.id) + "|" + t
					obs := 0.0
					if st := gs.score.peerStats[fp.id]; st != nil && st.topics[t] != nil {
						obs = st.topics[t].invalidMessageDeliveries
					}
					lo, hi := expectInvalidMin[k], expectInvalidMax[k]
					r := int(math.Round(obs))
					if math.Abs(obs-float64(r)) > 0.01 {
						continue // decayed too far to attribute (long runs); not judged
					}
					if r < lo || r > hi {
						what := "C04/penalty/missing"
						if r > hi {
							what = "C04/penalty/unjustified"
						}
						s.violate("C04", "penalty", what, "peer %s topic %s: invalid-delivery counter is %v, expected between %d and %d (forwarded rejected messages)", fp.name, t, obs, lo, hi)
					} else if hi > 0 {
						s.probe("penalty_checked")
					}
				}
			}
			gs.score.Unlock()
		}
		// --- local origin ---
		for _, l := range locals {
			if !l.c.isDone(s) {
				s.violate("C04", "local", "C04/local-publish-stuck", "Publish did not return after all validators were released")
				continue
			}
			// find the message id through the validator calls (local calls carry the id)
			var mid string
			for _, c := range calls {
				if c.local {
					if m := w.localMids[string(l.data)]; m != "" {
						mid = m
					}
				}
			}
			if mid == "" {
				mid = w.localMids[string(l.data)]
			}
			app := applicable(l.topic)
			ran := map[int]ValidationResult{}
			for _, c := range byMid[mid] {
				if c.local {
					ran[c.val] = c.verdict
				}
			}
			ok := len(ran) == len(app)
			for _, v := range ran {
				if v != ValidationAccept {
					ok = false
				}
			}
			err, _ := l.c.res.(error)
			if len(app) == 0 {
				ok = true
			}
			if mid == "" && len(app) > 0 {
				continue
			}
			if ok && err != nil {
				s.violate("C04", "local", "C04/local-accept-error", "local publish: every validator accepted but Publish returned %v", err)
			}
			if !ok {
				s.probe("local_publish_rejected")
				if err == nil {
					s.violate("C04", "local", "C04/local-failure-swallowed", "local publish failed validation (%v) but Publish returned nil", ran)
				}
				if mid != "" && len(wire[mid]) > 0 {
					s.violate("C04", "local", "C04/local-failure-left-node", "local publish failed validation (%v) but the message was sent to %d peers", ran, len(wire[mid]))
				}
				if mid != "" {
					n := 0
					for _, c := range deliv[mid] {
						n += c
					}
					if n > 0 {
						s.violate("C04", "local", "C04/local-failure-delivered", "local publish failed validation (%v) but was delivered locally", ran)
					}
				}
			} else {
				s.probe("local_publish_accepted")
			}
		}
		s.nontrivial = nJudged > 0
		s.class = fmt.Sprintf("%s/v%d%d/%x", w.n.router, p.ki("nval_default", 0), p.ki("topic_val", 0), shortHash([]byte(c13ClassStrAll(w))))
	})
	w.localHook = func(topic string, data []byte, c *call) { locals = append(locals, localRec{c, topic, data}) }
	w.run()
}

// startNodeC04: scoring with per-topic invalid-delivery accounting (tiny weight, almost no decay)
func (w *nodeWorld) startNodeC04(extra ...Option) error {
	if w.plan.ks("router", "gossipsub") == "gossipsub" {
		topics := map[string]*TopicScoreParams{}
		for _, t := range w.topics {
			topics[t] = &TopicScoreParams{TopicWeight: 1, TimeInMeshQuantum: time.Second,
				InvalidMessageDeliveriesWeight: -0.000001, InvalidMessageDeliveriesDecay: 0.9999999}
		}
		sp := &PeerScoreParams{
			AppSpecificScore:  func(pid peer.ID) float64 { return w.getAppScore(pid) },
			AppSpecificWeight: 1, DecayInterval: time.Second, DecayToZero: 0.0001, RetainScore: 10 * time.Minute,
			Topics: topics, SeenMsgTTL: 10 * time.Minute,
		}
		th := &PeerScoreThresholds{GossipThreshold: -1000, PublishThreshold: -2000, GraylistThreshold: -3000, AcceptPXThreshold: 10, OpportunisticGraftThreshold: 1}
		w.plan.Knobs["scoring"] = 0 // replace the generic scoring option
		extra = append(extra, WithPeerScore(sp, th))
	}
	return w.startNode(extra...)
}

var _ = context.Background
