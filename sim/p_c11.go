package pubsub

// C11 — splitting an oversized RPC loses nothing and respects the size limit.
// Observed at the system boundary: for every RPC the running router hands to its send path
// (verifObserveSendRPC hook: after piggy-backing, before the size decision), what is queued for
// the wire plus what is reported dropped equals what was handed over, and nothing on the wire
// exceeds the limit. The limit is a knob drawn from ~100 bytes upwards, so splitting is common.

import (
	"context"
	"crypto/sha256"
	"fmt"
	"runtime"
	"sort"
	"strings"

	pb "github.com/libp2p/go-libp2p-pubsub/pb"
	"github.com/libp2p/go-libp2p/core/peer"
)

func init() {
	registerProp("C11", genC11All, map[string]func(*sim){"node": runC11, "split": runC11Split})
}

// genC11All: most runs observe the running router at its send path (world "node"); one run in four
// hands generated RPCs of every shape directly to RPC.split (world "split"). The second is plain
// input generation for a pure function - no schedule, clock or fault is involved - and is here
// because the node's own code paths only ever produce a few RPC shapes (no subscriptions next to
// control, no partial message next to gossip, ...), which the property's quantifier does not
// exclude.
func genC11All(seed uint64, tier string) *Plan {
	r := newPrng(seed, "c11-world")
	if r.chance(0.25) {
		p := &Plan{World: "split", Knobs: map[string]float64{}}
		n := 4
		if tier == "thorough" {
			n = 8
		}
		for k := 0; k < n; k++ {
			p.Items = append(p.Items, Item{Op: "rpc", A: []int64{int64(r.intn(1 << 30)), int64(r.intn(6))}})
		}
		return p
	}
	return genC11(seed, tier)
}

func runC11Split(s *sim) {
	p := s.plan
	checked := 0
	for _, it := range p.Items {
		if len(s.viol) > 0 {
			break
		}
		s.steps++
		r := newPrng(p.Seed, fmt.Sprintf("c11split%d", it.a(0)))
		topics := []string{"t", "topic-with-a-longer-name-" + strings.Repeat("x", r.rng(0, 40)), ""}
		tp := func() *string { t := topics[r.intn(len(topics))]; return &t }
		id := func() string { return string(r.bytes([]int{1, 4, 20, 40}[r.intn(4)])) }
		rpc := &pb.RPC{}
		tr, fa := true, false
		if r.chance(0.4) {
			for k := r.rng(1, 6); k > 0; k-- {
				rpc.Subscriptions = append(rpc.Subscriptions, &pb.RPC_SubOpts{Topicid: tp(), Subscribe: []*bool{&tr, &fa}[r.intn(2)]})
			}
		}
		if r.chance(0.5) {
			for k := r.rng(1, 6); k > 0; k-- {
				rpc.Publish = append(rpc.Publish, &pb.Message{Data: r.bytes([]int{0, 1, 30, 90, 200, 600}[r.intn(6)]), Topic: tp(), From: r.bytes(r.intn(2) * 38), Seqno: r.bytes(r.intn(2) * 8)})
			}
		}
		if r.chance(0.8) {
			c := &pb.ControlMessage{}
			for k := r.intn(3); k > 0; k-- {
				h := &pb.ControlIHave{TopicID: tp()}
				for j := r.intn(14); j > 0; j-- {
					h.MessageIDs = append(h.MessageIDs, id())
				}
				c.Ihave = append(c.Ihave, h)
			}
			for k := r.intn(3); k > 0; k-- {
				w := &pb.ControlIWant{}
				for j := r.intn(14); j > 0; j-- {
					w.MessageIDs = append(w.MessageIDs, id())
				}
				c.Iwant = append(c.Iwant, w)
			}
			for k := r.intn(4); k > 0; k-- {
				c.Graft = append(c.Graft, &pb.ControlGraft{TopicID: tp()})
			}
			for k := r.intn(4); k > 0; k-- {
				pr := &pb.ControlPrune{TopicID: tp()}
				if r.chance(0.5) {
					b := uint64(r.intn(100))
					pr.Backoff = &b
				}
				for j := r.intn(3); j > 0; j-- {
					pr.Peers = append(pr.Peers, &pb.PeerInfo{PeerID: r.bytes(38), SignedPeerRecord: r.bytes(r.intn(2) * 80)})
				}
				c.Prune = append(c.Prune, pr)
			}
			for k := r.intn(3); k > 0; k-- {
				d := &pb.ControlIDontWant{}
				for j := r.intn(14); j > 0; j-- {
					d.MessageIDs = append(d.MessageIDs, id())
				}
				c.Idontwant = append(c.Idontwant, d)
			}
			if r.chance(0.2) {
				c.Extensions = &pb.ControlExtensions{PartialMessages: &tr}
			}
			rpc.Control = c
		}
		if r.chance(0.25) {
			rpc.Partial = &pb.PartialMessagesExtension{TopicID: tp(), GroupID: r.bytes(3), PartialMessage: r.bytes([]int{0, 10, 120}[r.intn(3)]), PartsMetadata: r.bytes(r.intn(2) * 6)}
		}
		if r.chance(0.1) {
			rpc.TestExtension = &pb.TestExtension{}
		}
		orig := canonRPC(rpc)
		if len(orig) == 0 {
			continue
		}
		size := rpc.Size()
		// limits from the minimum up to beyond the RPC's own size, the boundaries included
		var limit int
		switch it.a(1) {
		case 0:
			limit = r.rng(10, 60)
		case 1:
			limit = r.rng(60, 300)
		case 2:
			limit = size - r.rng(0, 3)
		case 3:
			limit = size + r.rng(0, 3)
		case 4:
			limit = size/2 + r.rng(-2, 2)
		default:
			limit = r.rng(10, size+20)
		}
		if limit < 8 {
			limit = 8
		}
		shape := shapeRPC(rpc)
		want := map[string]int{}
		for _, e := range orig {
			want[e]++
		}
		got := map[string]int{}
		var msgOrder []string
		nfrag := 0
		in := &RPC{RPC: *rpc}
		for f := range in.split(limit) {
			nfrag++
			fc := canonRPC(&f.RPC)
			fs := f.Size()
			if len(fc) == 0 {
				s.violate("C11", "empty", "C11/split/empty-fragment", "split(%d) of a %d-byte RPC (shape %s) yielded a fragment without content", limit, size, shape)
			}
			if fs > limit && len(fc) > 1 {
				s.violate("C11", "size", "C11/split/fragment-over-limit", "split(%d) of a %d-byte RPC (shape %s) yielded a fragment of %d bytes with %d elements", limit, size, shape, fs, len(fc))
			}
			if fs > limit && len(fc) == 1 {
				s.probe("split_single_oversized_element")
			}
			for _, e := range fc {
				got[e]++
				if strings.HasPrefix(e, "msg|") {
					msgOrder = append(msgOrder, e)
				}
			}
		}
		checked++
		if size >= limit {
			s.probe("split_needed")
		}
		var keys []string
		for e := range want {
			keys = append(keys, e)
		}
		for e := range got {
			if want[e] == 0 {
				keys = append(keys, e)
			}
		}
		sort.Strings(keys)
		for _, e := range keys {
			kind := e
			if i := strings.IndexByte(e, '|'); i > 0 {
				kind = e[:i]
			}
			switch {
			case got[e] < want[e]:
				s.violate("C11", "conservation", "C11/split/lost/"+kind, "split(%d) of a %d-byte RPC (shape %s): element %s present %d times, yielded %d times", limit, size, shape, e, want[e], got[e])
			case got[e] > want[e]:
				s.violate("C11", "conservation", "C11/split/duplicated/"+kind, "split(%d) of a %d-byte RPC (shape %s): element %s present %d times, yielded %d times", limit, size, shape, e, want[e], got[e])
			}
		}
		var wantOrder []string
		for _, e := range orig {
			if strings.HasPrefix(e, "msg|") {
				wantOrder = append(wantOrder, e)
			}
		}
		if len(wantOrder) == len(msgOrder) {
			for i := range wantOrder {
				if wantOrder[i] != msgOrder[i] {
					s.violate("C11", "order", "C11/split/message-order", "split(%d) reordered the published messages (shape %s)", limit, shape)
					break
				}
			}
		}
	}
	s.nontrivial = checked > 0
	s.class = fmt.Sprintf("split/%x", shortHash([]byte(c02ClassStr(p))))
}

func stackHas(fn string) bool {
	pcs := make([]uintptr, 24)
	n := runtime.Callers(3, pcs)
	fr := runtime.CallersFrames(pcs[:n])
	for {
		f, more := fr.Next()
		if strings.Contains(f.Function, fn) {
			return true
		}
		if !more {
			return false
		}
	}
}

func h8(b []byte) string {
	h := sha256.Sum256(b)
	return fmt.Sprintf("%x", h[:6])
}

// canonRPC reduces an RPC to its content elements. Published messages keep their order
// (prefix "msg#<position>" is added by the caller when order matters).
func canonRPC(r *pb.RPC) []string {
	var out []string
	for _, s := range r.GetSubscriptions() {
		out = append(out, fmt.Sprintf("sub|%s|%v|%v|%v", s.GetTopicid(), s.GetSubscribe(), s.GetRequestsPartial(), s.GetSupportsSendingPartial()))
	}
	for _, m := range r.GetPublish() {
		b, _ := m.Marshal()
		out = append(out, "msg|"+h8(b))
	}
	if c := r.GetControl(); c != nil {
		for _, g := range c.GetGraft() {
			out = append(out, "graft|"+g.GetTopicID())
		}
		for _, p := range c.GetPrune() {
			var px []string
			for _, pi := range p.GetPeers() {
				px = append(px, h8(pi.GetPeerID())+h8(pi.GetSignedPeerRecord()))
			}
			bo := "-"
			if p.Backoff != nil {
				bo = fmt.Sprint(p.GetBackoff())
			}
			out = append(out, fmt.Sprintf("prune|%s|%s|%s", p.GetTopicID(), bo, strings.Join(px, ",")))
		}
		for _, h := range c.GetIhave() {
			for _, id := range h.GetMessageIDs() {
				out = append(out, "ihave|"+h.GetTopicID()+"|"+h8([]byte(id)))
			}
		}
		for _, w := range c.GetIwant() {
			for _, id := range w.GetMessageIDs() {
				out = append(out, "iwant|"+h8([]byte(id)))
			}
		}
		for _, d := range c.GetIdontwant() {
			for _, id := range d.GetMessageIDs() {
				out = append(out, "idontwant|"+h8([]byte(id)))
			}
		}
		if e := c.GetExtensions(); e != nil {
			out = append(out, fmt.Sprintf("extensions|%v|%v", e.GetPartialMessages(), e.GetTestExtension()))
		}
	}
	if r.Partial != nil {
		b, _ := r.Partial.Marshal()
		out = append(out, "partial|"+h8(b))
	}
	if r.TestExtension != nil {
		out = append(out, "testext")
	}
	return out
}

func genC11(seed uint64, tier string) *Plan {
	r := newPrng(seed, "c11")
	p := &Plan{World: "node", Knobs: map[string]float64{}, SK: map[string]string{"router": "gossipsub"}}
	nt := r.rng(1, 6)
	p.Knobs["ntopics"] = float64(nt)
	p.Knobs["long_topics"] = float64(r.intn(2))
	p.Knobs["max_msg_size"] = float64([]int{110, 150, 200, 300, 500, 1000, 4096}[r.intn(7)])
	p.Knobs["scoring"] = float64(r.intn(2))
	p.Knobs["px"] = float64(r.intn(2))
	p.Knobs["hb_ms"] = 1000
	p.Knobs["queue_size"] = 256
	p.Knobs["prune_backoff_s"] = float64(r.rng(2, 6))
	p.Knobs["unsub_backoff_s"] = 1
	p.Knobs["idw_threshold"] = float64([]int{0, 0, 40}[r.intn(3)])
	p.Knobs["history_len"] = 5
	p.Knobs["history_gossip"] = 3
	p.Knobs["test_ext"] = float64(b2i(r.chance(0.3)))
	p.Knobs["seen_ttl_ms"] = 600000
	genDegrees(r, p, 4)
	add := func(op string, a ...int64) { p.Items = append(p.Items, Item{Op: op, A: a}) }
	for t := 0; t < nt; t++ {
		if r.chance(0.7) {
			add("node-sub", int64(t))
		}
	}
	np := r.rng(2, 6)
	for i := 0; i < np; i++ {
		add("peer", int64(i), int64(r.intn(3)), int64(r.intn(2)), int64(i))
		add("identify", int64(i))
		add("adv", 4)
		add("open", int64(i))
		for t := 0; t < nt; t++ {
			if r.chance(0.8) {
				add("sub", int64(i), int64(t))
			}
		}
	}
	add("adv", int64(r.rng(300, 1500)))
	n := r.rng(10, 36)
	if tier == "thorough" {
		n = r.rng(10, 80)
	}
	for k := 0; k < n; k++ {
		i := int64(r.intn(np))
		t := int64(r.intn(nt))
		x := r.intn(100)
		switch {
		case x < 14:
			add("pub", i, t, int64(r.rng(8, 90)))
		case x < 24:
			add("node-pub", t, int64(r.rng(8, 90)))
		case x < 36:
			add("iwantmany", i, int64(r.rng(2, 12)))
		case x < 52:
			add("sendctl", i, int64(r.intn(1<<20)))
		case x < 58:
			add("batch", t, int64(r.rng(2, 8)), int64(r.rng(8, 60)))
		case x < 66:
			add("node-sub", t)
		case x < 72:
			add("node-cancel", int64(r.intn(4)))
		case x < 86:
			add("adv", int64(r.rng(300, 2500)))
		case x < 90:
			add("graft", i, t)
		case x < 94:
			add("prune", i, t, int64(r.intn(2)*r.rng(1, 5)))
		default:
			add("resend", i, int64(r.intn(6)))
		}
	}
	add("adv", 1500)
	return p
}

type c11Obs struct {
	p     peer.ID
	canon []string
	size  int
	hasQ  bool
	from  int // index into raw at observation time
	shape string
}

func runC11(s *sim) {
	w := newNodeWorld(s)
	p := w.plan
	if p.kb("long_topics") {
		for i := range w.topics {
			w.topics[i] = fmt.Sprintf("topic-%d-%s", i, strings.Repeat("x", 12+i*7))
		}
	}
	var extra []Option
	if p.kb("test_ext") {
		extra = append(extra, WithTestExtension(TestExtensionConfig{}))
	}
	var observed []c11Obs
	defer func() { verifObserveSendRPCFn = nil }()
	if err := w.startNode(extra...); err != nil {
		s.violate("SIM", "setup", "SIM/setup", "node creation failed: %v", err)
		return
	}
	w.n.canonRPC = true
	limit := w.n.ps.maxMessageSize
	verifObserveSendRPCFn = func(pid peer.ID, out *RPC) {
		// runs on the event loop goroutine, inside sendRPC
		_, hasQ := w.n.ps.peers[pid]
		w.n.mu.Lock()
		from := len(w.n.raw)
		w.n.mu.Unlock()
		s.mu.Lock()
		observed = append(observed, c11Obs{p: pid, canon: canonRPC(&out.RPC), size: out.Size(), hasQ: hasQ, from: from, shape: shapeRPC(&out.RPC)})
		s.mu.Unlock()
	}
	gs := w.n.gs()
	w.extraOps["iwantmany"] = func(it Item) {
		fp := w.fake(int(it.a(0)))
		ids := w.sentIDs()
		if fp == nil || !fp.outAlive() || len(ids) == 0 {
			return
		}
		n := int(it.a(1))
		if n > len(ids) {
			n = len(ids)
		}
		// small frames only: the inbound limit applies to the scripted peer as well
		var chunk []string
		for _, id := range ids[:n] {
			chunk = append(chunk, id)
		}
		rpc := rpcIWant(chunk...)
		if b, _ := rpc.Marshal(); len(b) >= limit {
			rpc = rpcIWant(chunk[:1]...)
		}
		fp.send(rpc)
	}
	w.extraOps["sendctl"] = func(it Item) {
		fp := w.fake(int(it.a(0)))
		if fp == nil {
			return
		}
		r := newPrng(p.Seed, fmt.Sprintf("sendctl%d", it.a(1)))
		ctl := &pb.ControlMessage{}
		idlen := []int{4, 12, 40}[r.intn(3)]
		mkid := func() string { return string(r.bytes(idlen)) }
		if r.chance(0.5) {
			for t := 0; t < r.rng(1, 3); t++ {
				topic := w.topicName(int64(r.intn(len(w.topics))))
				ih := &pb.ControlIHave{TopicID: &topic}
				for k := r.rng(0, 12); k > 0; k-- {
					ih.MessageIDs = append(ih.MessageIDs, mkid())
				}
				ctl.Ihave = append(ctl.Ihave, ih)
			}
		}
		if r.chance(0.5) {
			for t := 0; t < r.rng(1, 2); t++ {
				iw := &pb.ControlIWant{}
				for k := r.rng(0, 12); k > 0; k-- {
					iw.MessageIDs = append(iw.MessageIDs, mkid())
				}
				ctl.Iwant = append(ctl.Iwant, iw)
			}
		}
		if r.chance(0.4) {
			for k := r.rng(1, 5); k > 0; k-- {
				topic := w.topicName(int64(r.intn(len(w.topics))))
				ctl.Graft = append(ctl.Graft, &pb.ControlGraft{TopicID: &topic})
			}
		}
		if r.chance(0.4) {
			for k := r.rng(1, 4); k > 0; k-- {
				topic := w.topicName(int64(r.intn(len(w.topics))))
				bo := uint64(r.rng(0, 60))
				pr := &pb.ControlPrune{TopicID: &topic, Backoff: &bo}
				for j := r.rng(0, 3); j > 0; j-- {
					pr.Peers = append(pr.Peers, &pb.PeerInfo{PeerID: r.bytes(38), SignedPeerRecord: r.bytes(r.rng(0, 120))})
				}
				ctl.Prune = append(ctl.Prune, pr)
			}
		}
		if r.chance(0.5) {
			for t := 0; t < r.rng(1, 2); t++ {
				d := &pb.ControlIDontWant{}
				for k := r.rng(1, 14); k > 0; k-- {
					d.MessageIDs = append(d.MessageIDs, mkid())
				}
				ctl.Idontwant = append(ctl.Idontwant, d)
			}
		}
		var msgs []*pb.Message
		if r.chance(0.35) {
			for k := r.rng(1, 4); k > 0; k-- {
				topic := w.topicName(int64(r.intn(len(w.topics))))
				msgs = append(msgs, &pb.Message{Data: r.bytes(r.rng(4, 200)), Topic: &topic, From: []byte(w.n.h.id), Seqno: r.bytes(8)})
			}
		}
		s.do("SendControl", func() any {
			return w.n.ps.syncEval(func() { gs.SendControl(fp.id, ctl, msgs...) })
		})
	}
	w.extraOps["batch"] = func(it Item) {
		topic := w.topicName(it.a(0))
		n := int(it.a(1))
		sz := int(it.a(2))
		var datas [][]byte
		for k := 0; k < n; k++ {
			datas = append(datas, w.mkData(sz))
		}
		s.do("PublishBatch", func() any {
			t, err := w.n.topic(topic)
			if err != nil {
				return err
			}
			var b MessageBatch
			for _, d := range datas {
				if err := t.AddToBatch(context.Background(), &b, d); err != nil {
					return err
				}
			}
			return w.n.ps.PublishBatch(&b)
		})
	}
	checked := 0
	judge := func() {
		s.mu.Lock()
		obs := observed
		observed = nil
		s.mu.Unlock()
		w.n.mu.Lock()
		raw := append([]rawRec(nil), w.n.raw...)
		w.n.mu.Unlock()
		for k, o := range obs {
			end := len(raw)
			if k+1 < len(obs) {
				end = obs[k+1].from
			}
			var sent, dropped []rawRec
			for _, r := range raw[o.from:end] {
				if !r.inSend || r.p != o.p {
					continue
				}
				switch r.kind {
				case "send":
					sent = append(sent, r)
				case "drop":
					dropped = append(dropped, r)
				}
			}
			if !o.hasQ {
				continue // no queue for that peer: nothing was handed to the wire path
			}
			checked++
			split := o.size >= limit
			if split {
				s.probe("rpc_needed_split")
				s.probe("split_shape_" + o.shape)
			}
			if o.size == limit || o.size == limit-1 || o.size == limit+1 {
				s.probe("rpc_size_at_limit_pm1")
			}
			want := map[string]int{}
			for _, e := range o.canon {
				want[e]++
			}
			got := map[string]int{}
			var msgOrder []string
			for _, r := range sent {
				if r.size > limit {
					s.violate("C11", "size", "C11/fragment-over-limit", "an RPC of %d bytes was queued for %s, limit %d (original %d bytes, shape %s)", r.size, shortPeer(o.p), limit, o.size, o.shape)
				}
				if len(r.canon) == 0 && len(o.canon) > 0 {
					s.violate("C11", "empty", "C11/empty-fragment", "an empty RPC was queued for %s (original %d bytes, shape %s)", shortPeer(o.p), o.size, o.shape)
				}
				for _, e := range r.canon {
					got[e]++
					if strings.HasPrefix(e, "msg|") {
						msgOrder = append(msgOrder, e)
					}
				}
			}
			dropSet := map[string]int{}
			for _, r := range dropped {
				s.probe("drop_reported")
				if r.size > limit {
					s.probe("drop_oversized")
					// only an individual element that cannot fit by itself may be dropped for size
					if len(r.canon) > 1 {
						s.violate("C11", "drop-only-unsplittable", "C11/dropped-splittable", "a fragment of %d bytes with %d elements was dropped as oversized for %s (limit %d, original %d bytes, shape %s): its elements fit one by one", r.size, len(r.canon), shortPeer(o.p), limit, o.size, o.shape)
					}
				} else if !r.qfull {
					s.violate("C11", "drop-only-unsplittable", "C11/dropped-without-reason", "an RPC of %d bytes (limit %d) was dropped for %s although its outbound queue was not full", r.size, limit, shortPeer(o.p))
				}
				for _, e := range r.canon {
					dropSet[e]++
				}
			}
			// conservation: original = sent + dropped
			var keys []string
			seen := map[string]bool{}
			for e := range want {
				if !seen[e] {
					seen[e] = true
					keys = append(keys, e)
				}
			}
			for e := range got {
				if !seen[e] {
					seen[e] = true
					keys = append(keys, e)
				}
			}
			for e := range dropSet {
				if !seen[e] {
					seen[e] = true
					keys = append(keys, e)
				}
			}
			sort.Strings(keys)
			for _, e := range keys {
				kind := e[:strings.IndexByte(e, '|')+0]
				if i := strings.IndexByte(e, '|'); i > 0 {
					kind = e[:i]
				} else {
					kind = e
				}
				w0, g0, d0 := want[e], got[e], dropSet[e]
				switch {
				case g0+d0 < w0:
					s.violate("C11", "conservation", "C11/lost/"+kind, "RPC for %s (%d bytes, limit %d, shape %s): element %s handed over %d times, queued %d, reported dropped %d", shortPeer(o.p), o.size, limit, o.shape, e, w0, g0, d0)
				case g0 > w0:
					s.violate("C11", "conservation", "C11/duplicated/"+kind, "RPC for %s (%d bytes, limit %d, shape %s): element %s handed over %d times but queued %d times", shortPeer(o.p), o.size, limit, o.shape, e, w0, g0)
				case g0+d0 > w0:
					s.violate("C11", "conservation", "C11/dropped-and-sent/"+kind, "RPC for %s (%d bytes, limit %d, shape %s): element %s handed over %d times, queued %d and also reported dropped %d", shortPeer(o.p), o.size, limit, o.shape, e, w0, g0, d0)
				}
			}
			// order of published messages
			var wantOrder []string
			for _, e := range o.canon {
				if strings.HasPrefix(e, "msg|") && got[e] > 0 {
					wantOrder = append(wantOrder, e)
				}
			}
			if len(wantOrder) == len(msgOrder) {
				for i := range wantOrder {
					if wantOrder[i] != msgOrder[i] {
						s.violate("C11", "order", "C11/message-order", "published messages were reordered by splitting (shape %s)", o.shape)
						break
					}
				}
			}
		}
	}
	w.afterItem = append(w.afterItem, func(it Item) {
		judge()
		// wire: no frame above the limit
		for _, fp := range w.allFakes() {
			for ; fp.c11cursor < len(fp.recv); fp.c11cursor++ {
				o := fp.recv[fp.c11cursor]
				first := fp.c11cursor == 0 || fp.recv[fp.c11cursor-1].stream != o.stream
				if o.size > limit {
					if first && len(o.rpc.GetSubscriptions()) > 0 {
						// the hello packet (all subscriptions) is written directly, never through the send path
						s.violate("C11", "size", "C11/hello-over-limit", "the hello packet written to %s has %d bytes (%d subscriptions), limit %d: it is never split", fp.name, o.size, len(o.rpc.GetSubscriptions()), limit)
					} else {
						s.violate("C11", "size", "C11/frame-over-limit", "a frame of %d bytes was written to %s, limit %d", o.size, fp.name, limit)
					}
				}
				if o.size == 0 {
					s.violate("C11", "empty", "C11/empty-frame", "an empty frame was written to %s", fp.name)
				}
			}
		}
	})
	w.afterHeartbeat = append(w.afterHeartbeat, func(a, b *snapshot) { judge() })
	w.atEnd = append(w.atEnd, func() {
		judge()
		s.nontrivial = checked > 0
		s.class = fmt.Sprintf("%d/%x", limit, shortHash([]byte(c13ClassStrAll(w))))
	})
	w.run()
}

// shapeRPC: which kinds of content an RPC carries (evidence: shape classes reached).
func shapeRPC(r *pb.RPC) string {
	s := ""
	if len(r.GetSubscriptions()) > 0 {
		s += "S"
	}
	if len(r.GetPublish()) > 0 {
		s += "M"
	}
	if c := r.GetControl(); c != nil {
		if len(c.GetGraft()) > 0 {
			s += "g"
		}
		if len(c.GetPrune()) > 0 {
			s += "p"
		}
		if len(c.GetIhave()) > 0 {
			s += "h"
		}
		if len(c.GetIwant()) > 0 {
			s += "w"
		}
		if len(c.GetIdontwant()) > 0 {
			s += "d"
		}
		if c.GetExtensions() != nil {
			s += "x"
		}
	}
	if r.Partial != nil {
		s += "P"
	}
	if r.TestExtension != nil {
		s += "T"
	}
	return s
}
