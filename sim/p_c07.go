package pubsub

// C07 — mesh maintenance keeps every joined topic's mesh within its invariants.
// C08 — prune back-off is honoured in both directions.
// Shared W-NODE generator of mesh-heavy histories; separate oracles.

import (
	"fmt"
	"sort"
	"time"

	"github.com/libp2p/go-libp2p/core/peer"
)

func init() {
	registerProp("C07", genMesh, map[string]func(*sim){"node": runMesh})
	registerProp("C08", genMesh, map[string]func(*sim){"node": runMesh})
}

func genMesh(seed uint64, tier string) *Plan {
	r := newPrng(seed, "mesh")
	p := &Plan{World: "node", Knobs: map[string]float64{}, SK: map[string]string{"router": "gossipsub"}}
	p.Knobs["ntopics"] = float64(r.rng(1, 2))
	p.Knobs["scoring"] = float64(b2i(r.chance(0.85)))
	p.Knobs["px"] = float64(b2i(r.chance(0.3)))
	p.Knobs["hb_ms"] = 1000
	p.Knobs["hb_init_ms"] = float64(r.rng(50, 400))
	pb := r.rng(2, 30)
	p.Knobs["prune_backoff_s"] = float64(pb)
	p.Knobs["unsub_backoff_s"] = float64(r.rng(1, 10))
	p.Knobs["graft_flood_ms"] = float64(r.rng(0, pb*1000))
	p.Knobs["opp_ticks"] = float64(r.rng(1, 8))
	if r.chance(0.04) {
		// zero is accepted by the parameter validation ("every N ticks" with N = 0)
		p.Knobs[[]string{"opp_ticks", "direct_ticks"}[r.intn(2)]] = 0
	}
	p.Knobs["opp_peers"] = float64(r.rng(1, 2))
	p.Knobs["oppgraft_thr"] = float64(r.rng(0, 5))
	p.Knobs["queue_size"] = float64([]int{2, 4, 32, 32}[r.intn(4)])
	p.Knobs["behaviour_weight"] = 0 // penalties are counted but do not move the score: scores are exactly what the plan says
	p.Knobs["retain_score_s"] = float64(r.rng(1, 20))
	genDegrees(r, p, 5)
	np := r.rng(2, 9)
	if tier == "thorough" {
		np = r.rng(2, 16)
	}
	nt := p.ki("ntopics", 1)
	add := func(op string, a ...int64) { p.Items = append(p.Items, Item{Op: op, A: a}) }
	if r.chance(0.7) {
		add("node-sub", 0)
	}
	for i := 0; i < np; i++ {
		// mesh-capable peers dominate
		version := int64(r.intn(4))
		if r.chance(0.12) {
			version = int64(4 + r.intn(2))
		}
		add("peer", int64(i), version, int64(r.intn(2)), int64(i))
		if r.chance(0.95) {
			add("identify", int64(i))
			add("adv", int64(r.rng(3, 6)))
			add("open", int64(i))
			for t := 0; t < nt; t++ {
				if r.chance(0.85) {
					add("sub", int64(i), int64(t))
				}
			}
		} else {
			genBringUp(r, p, i, nt, 0.3)
		}
		if r.chance(0.3) {
			add("score", int64(i), int64(r.rng(-3, 6))*1000)
		}
		if r.chance(0.06) {
			add("direct-add", int64(i))
		}
	}
	n := r.rng(10, 40)
	if tier == "thorough" {
		n = r.rng(10, 90)
	}
	for k := 0; k < n; k++ {
		i := int64(r.intn(np))
		t := int64(r.intn(nt))
		x := r.intn(100)
		switch {
		case x < 22:
			add("adv", int64(r.rng(200, 2500)))
		case x < 27:
			add("adv", int64(r.rng(2500, 40000)))
		case x < 40:
			add("graft", i, t)
		case x < 50:
			bo := int64(r.intn(3) * r.rng(0, 40))
			if r.chance(0.08) {
				bo = []int64{1 << 62, 9223372037, 1 << 40}[r.intn(3)] // seconds
			}
			add("prune", i, t, bo, int64(r.intn(3)/2*r.rng(1, 3)))
		case x < 60:
			add("score", i, int64(r.rng(-5, 8))*1000)
		case x < 66:
			add("node-sub", t)
		case x < 71:
			add("node-cancel", int64(r.intn(3)))
		case x < 74:
			add("node-relay", t)
		case x < 76:
			add("node-relay-cancel", t)
		case x < 80:
			add("disconnect", i)
		case x < 84:
			add("reconnect", i, int64(r.intn(2)))
			add("identify", i)
			add("adv", int64(r.rng(3, 6)))
			add("open", i)
			add("sub", i, t)
		case x < 87:
			add("stall", i, int64(r.intn(2)))
		case x < 90:
			add("sub", i, t)
		case x < 92:
			add("unsub", i, t)
		case x < 94:
			add("direct-add", i)
		case x < 95:
			add("direct-rm", i)
		case x < 97:
			add("node-pub", t, int64(r.rng(8, 100)))
		case x < 98:
			add("reset-in", i)
		default:
			add("graft", i, t)
			add("graft", i, t)
		}
		if r.chance(0.06) {
			// congestion: the peer stops reading, announcements fill its outbound queue, so that the
			// next GRAFT/PRUNE for it is dropped and has to be retried
			add("stall", i, 1)
			for c := r.rng(2, 5); c > 0; c-- {
				add("node-relay", int64(nt-1))
				add("node-relay-cancel", int64(nt-1))
			}
			switch r.intn(3) {
			case 0:
				add("node-sub", t)
			case 1:
				add("node-cancel", int64(r.intn(3)))
				add("node-sub", t)
			default:
				add("adv", int64(r.rng(1000, 2100)))
			}
			if r.chance(0.6) {
				add("prune", i, t, int64(r.intn(2)*r.rng(1, 40)), int64(r.intn(3)/2*r.rng(1, 3)))
			}
			if r.chance(0.5) {
				add("adv", int64(r.rng(900, 2100)))
			}
			add("stall", i, 0)
			add("adv", int64(r.rng(900, 2100)))
		}
	}
	add("adv", int64(r.rng(1000, 4000)))
	// Variation drawn from its own stream (the plans of all other seeds stay as they were): behaviour
	// penalties that move the score, and RPCs that carry GRAFTs for both topics, so that the refusal
	// of the first GRAFT (back-off: penalty) changes the score the second one has to be judged by.
	if r2 := newPrng(seed, "mesh-graft2"); nt == 2 && p.kb("scoring") && r2.chance(0.2) {
		p.Knobs["behaviour_weight"] = []float64{-1, -10, -5000}[r2.intn(3)]
		for k := range p.Items {
			if it := &p.Items[k]; it.Op == "graft" && r2.chance(0.6) {
				*it = Item{Op: "graft2", A: []int64{it.A[0], it.A[1], 1 - it.A[1]}}
			}
		}
	}
	return p
}

type ledgerEnt struct {
	until  time.Duration // earliest virtual instant at which the node may GRAFT
	period time.Duration // the back-off period that produced it
	from   time.Duration
}

func runMesh(s *sim) {
	w := newNodeWorld(s)
	p := w.plan
	if p.Prop == "C08" {
		// The two-GRAFT variation belongs to C07 only: the back-off ledger of C08 does not model the
		// refusals (PRUNE, extension, flood window) of a `graft2` item, and a ledger that misses a PRUNE
		// the node sent expects a single penalty where a double one is due. For C08 those items are
		// ordinary single GRAFTs and scores are the planned ones, as before.
		p.Knobs["behaviour_weight"] = 0
		for k := range p.Items {
			if it := &p.Items[k]; it.Op == "graft2" {
				*it = Item{Op: "graft", A: []int64{it.A[0], it.A[1]}}
			}
		}
	}
	if err := w.startNode(); err != nil {
		s.violate("SIM", "setup", "SIM/setup", "node creation failed: %v", err)
		return
	}
	prop := p.Prop
	gs := w.n.gs()
	params := gs.params
	w.extraOps["graft2"] = func(it Item) { // [peer, first topic, second topic]: both GRAFTs in one RPC, in that order
		if fp := w.fake(int(it.a(0))); fp != nil && fp.outAlive() {
			fp.send(rpcGraft(w.topicName(it.a(1)), w.topicName(it.a(2))))
		}
	}
	scoring := p.kb("scoring")
	idxOf := map[peer.ID]int{}
	fakeIdx := func(id peer.ID) (int, bool) {
		if i, ok := idxOf[id]; ok {
			return i, true
		}
		for i, fp := range w.fakes {
			if fp.id == id {
				idxOf[id] = i
				return i, true
			}
		}
		return 0, false
	}
	meshCapable := func(sn *snapshot, id peer.ID) bool {
		return gs.feature(GossipSubFeatureMesh, sn.gsPeers[id])
	}
	joined := func(sn *snapshot, t string) bool { return sn.mySubs[t] > 0 || sn.myRelays[t] > 0 }
	score := func(sn *snapshot, id peer.ID) float64 {
		if !scoring {
			return 0
		}
		return sn.scores[id]
	}
	ledger := map[string]*ledgerEnt{} // peer|topic
	lkey := func(id peer.ID, t string) string { return string(id) + "|" + t }
	extend := func(id peer.ID, t string, now, period time.Duration) {
		k := lkey(id, t)
		e := ledger[k]
		if e == nil || e.until < now+period {
			ledger[k] = &ledgerEnt{until: now + period, period: period, from: now}
		}
	}
	hbN := 0

	// ---- structural invariants on every snapshot (C07/6) ----
	structure := func(sn *snapshot, where string) {
		if prop != "C07" {
			return
		}
		for t, m := range sn.mesh {
			if !joined(sn, t) {
				s.violate("C07", "structure", "C07/structure/mesh-for-unjoined-topic", "%s: mesh exists for topic %s which is not joined", where, t)
			}
			for id := range m {
				if _, ok := sn.gsPeers[id]; !ok {
					s.violate("C07", "structure", "C07/structure/mesh-member-not-connected", "%s: mesh member %s of %s is not a connected router peer", where, shortPeer(id), t)
				}
			}
		}
		for t := range sn.mySubs {
			if _, ok := sn.mesh[t]; !ok {
				s.violate("C07", "structure", "C07/structure/no-mesh-for-joined-topic", "%s: topic %s is joined but has no mesh", where, t)
			}
		}
		for t := range sn.myRelays {
			if _, ok := sn.mesh[t]; !ok && sn.myRelays[t] > 0 {
				s.violate("C07", "structure", "C07/structure/no-mesh-for-joined-topic", "%s: topic %s is relayed but has no mesh", where, t)
			}
		}
		for t, m := range sn.fanout {
			if _, ok := sn.mesh[t]; ok {
				s.violate("C07", "structure", "C07/structure/fanout-for-joined-topic", "%s: fanout state exists for joined topic %s", where, t)
			}
			for id := range m {
				if _, ok := sn.gsPeers[id]; !ok {
					s.violate("C07", "structure", "C07/structure/fanout-member-not-connected", "%s: fanout member %s of %s is not a connected router peer", where, shortPeer(id), t)
				}
			}
		}
	}

	// eligibility of a candidate for a self-initiated graft, judged on the pre-state.
	// must: certainly eligible (no back-off entry at all); may: eligible if its back-off entry is swept.
	eligible := func(pre *snapshot, t string, id peer.ID, sc float64) (must, may bool) {
		if _, ok := pre.topics[t][id]; !ok {
			return false, false
		}
		if !meshCapable(pre, id) || pre.direct[id] || sc < 0 {
			return false, false
		}
		if _, ok := pre.backoff[t][id]; ok {
			return false, true
		}
		return true, true
	}

	// wire expectations for self-initiated changes (C07/5)
	sawCtl := func(pre, post *snapshot, id peer.ID, t string, graft bool) (seen bool, checkable bool) {
		i, ok := fakeIdx(id)
		if !ok {
			return false, false
		}
		if !pre.inAlive[i] || !post.inAlive[i] || pre.stalled[i] || post.stalled[i] {
			return false, false
		}
		for _, r := range rawBetween(w, pre, post) {
			if r.kind == "drop" && r.p == id {
				return false, false
			}
		}
		for _, o := range framesBetween(w, i, pre, post) {
			c := o.rpc.GetControl()
			if graft {
				for _, g := range c.GetGraft() {
					if g.GetTopicID() == t {
						return true, true
					}
				}
			} else {
				for _, pr := range c.GetPrune() {
					if pr.GetTopicID() == t {
						return true, true
					}
				}
			}
		}
		return false, true
	}

	// C08: every GRAFT the node decides to send respects the ledger. The decision instant is the
	// SEND_RPC trace of the RPC that carries the GRAFT (a frame may be written later than it was
	// queued when the peer is slow, and stream order then still puts it before any later PRUNE);
	// every GRAFT frame on the wire must be covered by such a traced send. Every PRUNE written to
	// a >= v1.1 peer states the back-off. Frames and trace records are consumed through cursors so
	// that each is judged exactly once.
	cursor := map[int]int{}
	rawCursor := 0
	sentGrafts := map[string]int{}
	wireGrafts := map[string]int{}
	wireC08 := func() {
		if prop != "C08" {
			return
		}
		w.n.mu.Lock()
		raws := append([]rawRec(nil), w.n.raw[rawCursor:]...)
		rawCursor = len(w.n.raw)
		w.n.mu.Unlock()
		for _, r := range raws {
			if r.kind != "send" || r.rpc == nil {
				continue
			}
			for _, g := range r.rpc.GetControl().GetGraft() {
				t := g.GetTopicID()
				sentGrafts[lkey(r.p, t)]++
				s.probe("graft_sends_checked")
				name := shortPeer(r.p)
				if e := ledger[lkey(r.p, t)]; e != nil && r.t < e.until {
					s.violate("C08", "early-graft", "C08/early-graft", "GRAFT(%s) queued for %s at %v but back-off (period %v, started %v) runs until %v", t, name, r.t, e.period, e.from, e.until)
				} else if e != nil && r.t < e.until+20*time.Second {
					s.probe("graft_soon_after_backoff_expiry")
				}
			}
		}
		for _, i := range w.forder {
			fp := w.fakes[i]
			for ; cursor[i] < len(fp.recv); cursor[i]++ {
				o := fp.recv[cursor[i]]
				c := o.rpc.GetControl()
				for _, g := range c.GetGraft() {
					k := lkey(fp.id, g.GetTopicID())
					wireGrafts[k]++
					if wireGrafts[k] > sentGrafts[k] {
						s.violate("C08", "untraced-graft", "C08/untraced-graft", "GRAFT(%s) on the wire to %s without a traced send (wire %d, traced %d)", g.GetTopicID(), fp.name, wireGrafts[k], sentGrafts[k])
					}
				}
				for _, pr := range c.GetPrune() {
					s.probe("prune_frames_checked")
					if fp.in != nil && gs.feature(GossipSubFeaturePX, fp.in.proto) && pr.Backoff == nil {
						s.violate("C08", "prune-backoff-field", "C08/prune-without-backoff", "PRUNE(%s) written to %s (negotiated %s) carries no back-off", pr.GetTopicID(), fp.name, fp.in.proto)
					}
				}
			}
		}
	}

	var preItem *snapshot
	w.beforeItem = append(w.beforeItem, func(it Item) {
		preItem = w.snapshot()
		if w.lastSnap == nil {
			w.lastSnap = preItem
		}
	})

	// ---- after heartbeat ----
	w.afterHeartbeat = append(w.afterHeartbeat, func(pre, post *snapshot) {
		hbN++
		structure(post, "after heartbeat")
		raws := rawBetween(w, pre, post)
		// ledger: node-initiated prunes in this heartbeat
		for _, r := range raws {
			if r.kind == "prune" {
				extend(r.p, r.topic, post.t-1, params.PruneBackoff)
			}
		}
		wireC08()
		if prop != "C07" {
			return
		}
		for _, r := range raws {
			if r.kind == "closedout" || r.kind == "newout" || r.kind == "join" || r.kind == "leave" || r.kind == "recv" {
				// another input reached the node at the very instant of the heartbeat (e.g. a 30 s write
				// deadline that started at an earlier heartbeat): before/after cannot be attributed
				s.probe("heartbeat_window_perturbed")
				return
			}
		}
		for t, Q := range post.mesh {
			P, okP := pre.mesh[t]
			if !okP {
				continue
			}
			// 1. no negative member
			for id := range Q {
				if score(post, id) < 0 {
					s.violate("C07", "negative-member", "C07/heartbeat/negative-score-member", "after heartbeat %d mesh of %s contains %s with score %v", hbN, t, shortPeer(id), score(post, id))
				}
			}
			Pp := map[peer.ID]bool{}
			for id := range P {
				if score(post, id) >= 0 {
					Pp[id] = true
				} else {
					s.probe("negative_score_pruned")
				}
			}
			must, may := 0, 0
			for id := range pre.topics[t] {
				if Pp[id] || P[id] {
					continue
				}
				m1, m2 := eligible(pre, t, id, score(post, id))
				if m1 {
					must++
				}
				if m2 {
					may++
				}
			}
			// new members must be eligible
			added := 0
			for id := range Q {
				if P[id] {
					continue
				}
				added++
				_, m2 := eligible(pre, t, id, score(post, id))
				if !m2 {
					why := "not eligible"
					switch {
					case pre.direct[id]:
						why = "direct peer"
					case score(post, id) < 0:
						why = "negative score"
					case !meshCapable(pre, id):
						why = "not mesh capable / not connected"
					}
					s.violate("C07", "admission", "C07/heartbeat/ineligible-graft/"+why, "heartbeat %d grafted %s into %s: %s", hbN, shortPeer(id), t, why)
				} else if _, bo := pre.backoff[t][id]; bo {
					// entry existed before the heartbeat: legal only if it was swept in this heartbeat (expired + slack)
					exp := pre.backoff[t][id]
					nowT := s.epoch.Add(post.t)
					if !exp.Add(2 * GossipSubHeartbeatInterval).Before(nowT) {
						s.violate("C07", "admission", "C07/heartbeat/ineligible-graft/backed-off", "heartbeat %d grafted %s into %s although its back-off entry (expiry %v) was still in force at %v", hbN, shortPeer(id), t, exp.Sub(s.epoch), post.t)
					}
				}
				// control traffic
				if seen, checkable := sawCtl(pre, post, id, t, true); checkable && !seen {
					s.violate("C07", "control", "C07/control/graft-not-sent", "heartbeat %d added %s to mesh of %s but no GRAFT reached its stream", hbN, shortPeer(id), t)
				} else if checkable {
					s.probe("graft_on_wire_checked")
				}
			}
			size0 := len(Pp)
			switch {
			case size0 < params.Dlo:
				s.probe("mesh_below_Dlo")
				want := params.D
				if size0+must < want {
					want = size0 + must
					s.probe("fewer_candidates_than_needed")
				}
				if len(Q) < want {
					s.violate("C07", "growth", "C07/heartbeat/undergrown", "heartbeat %d: mesh of %s had %d (< Dlo=%d) members and %d eligible candidates but has only %d (want >= %d, D=%d)", hbN, t, size0, params.Dlo, must, len(Q), want, params.D)
				}
				if size0+may < params.D && false {
					_ = may
				}
				if len(Q) > maxi(params.D, size0)+params.OpportunisticGraftPeers+params.Dout {
					s.violate("C07", "growth", "C07/heartbeat/overgrown", "heartbeat %d: mesh of %s grew from %d to %d (D=%d)", hbN, t, size0, len(Q), params.D)
				}
			case size0 >= params.Dhi:
				s.probe("mesh_at_or_above_Dhi")
				surv := map[peer.ID]bool{}
				for id := range Q {
					if Pp[id] {
						surv[id] = true
					}
				}
				if len(surv) != params.D {
					s.violate("C07", "shrink", "C07/heartbeat/not-cut-to-D", "heartbeat %d: mesh of %s had %d (>= Dhi=%d) members, %d survive, want D=%d", hbN, t, size0, params.Dhi, len(surv), params.D)
				}
				// best-scoring survive
				k := mini(params.Dscore, params.D)
				if k > 0 && params.Dscore+params.Dout <= params.D {
					var sc []float64
					for id := range Pp {
						sc = append(sc, score(post, id))
					}
					sort.Sort(sort.Reverse(sort.Float64Slice(sc)))
					vk := sc[k-1]
					if sc[0] != sc[len(sc)-1] {
						s.probe("shrink_with_distinct_scores")
					}
					ge := 0
					for id := range Pp {
						if score(post, id) > vk && !surv[id] {
							s.violate("C07", "shrink", "C07/heartbeat/best-scoring-pruned", "heartbeat %d: %s (score %v, above the Dscore=%d cut %v) was pruned from %s", hbN, shortPeer(id), score(post, id), params.Dscore, vk, t)
						}
						if score(post, id) >= vk && surv[id] {
							ge++
						}
					}
					if ge < k {
						s.violate("C07", "shrink", "C07/heartbeat/best-scoring-pruned", "heartbeat %d: only %d survivors of %s have score >= the Dscore cut %v (want %d)", hbN, ge, t, vk, k)
					}
				}
				// outbound quota
				availOut, keptOut := 0, 0
				for id := range Pp {
					if pre.outbound[id] {
						availOut++
						if surv[id] {
							keptOut++
						}
					}
				}
				if keptOut < mini(params.Dout, availOut) {
					s.violate("C07", "shrink", "C07/heartbeat/outbound-quota", "heartbeat %d: %d outbound members survive in %s, want min(Dout=%d, available=%d)", hbN, keptOut, t, params.Dout, availOut)
				}
				if params.Dout > 0 && availOut > 0 {
					s.probe("outbound_quota_relevant")
				}
			default:
				// neither under nor over: only outbound-quota and opportunistic additions
				if added > params.Dout+params.OpportunisticGraftPeers {
					s.violate("C07", "growth", "C07/heartbeat/unexpected-additions", "heartbeat %d: %d additions to a mesh of %s within [Dlo,Dhi)", hbN, added, t)
				}
				if added > 0 {
					s.probe("quota_or_opportunistic_graft")
				}
			}
			// removals: still connected and not removed for a PRUNE of their own -> PRUNE on the wire
			for id := range P {
				if Q[id] {
					continue
				}
				if _, still := post.gsPeers[id]; !still {
					continue
				}
				if seen, checkable := sawCtl(pre, post, id, t, false); checkable && !seen {
					s.violate("C07", "control", "C07/control/prune-not-sent", "heartbeat %d removed %s from mesh of %s but no PRUNE reached its stream", hbN, shortPeer(id), t)
				} else if checkable {
					s.probe("prune_on_wire_checked")
				}
			}
		}
	})

	// ---- after every item ----
	w.afterItem = append(w.afterItem, func(it Item) {
		post := w.snapshot()
		pre := preItem
		defer func() { w.lastSnap = post }()
		if pre == nil || s.stopped {
			return
		}
		structure(post, "after "+it.Op)
		if it.Op == "adv" {
			wireC08()
			return
		}
		raws := rawBetween(w, pre, post)
		nowD := post.t
		var sender *fakePeer
		switch it.Op {
		case "graft", "graft2", "prune", "sub", "unsub", "pub", "ihave", "iwant", "idontwant", "fwd", "resend":
			sender = w.fake(int(it.a(0)))
		}
		accepted := func(fp *fakePeer) bool {
			if fp == nil || !pre.outAlive[int(it.a(0))] {
				return false
			}
			if pre.direct[fp.id] {
				return true
			}
			return !scoring || pre.scores[fp.id] >= gs.graylistThreshold
		}
		// ledger updates from traces: Leave (unsubscribe back-off) and received PRUNEs
		left := map[string]bool{}
		for _, r := range raws {
			if r.kind == "leave" {
				left[r.topic] = true
			}
		}
		for _, r := range raws {
			if r.kind != "prune" {
				continue
			}
			switch {
			case left[r.topic]:
				extend(r.p, r.topic, nowD, params.UnsubscribeBackoff)
			case it.Op == "prune" && sender != nil && r.p == sender.id:
				bo := time.Duration(it.a(2)) * time.Second
				if bo <= 0 {
					bo = params.PruneBackoff
				}
				extend(r.p, r.topic, nowD, bo)
			default:
				extend(r.p, r.topic, nowD, params.PruneBackoff)
			}
		}
		// received PRUNE for a joined topic while not in mesh still records back-off (handlePrune does
		// it whenever the topic has a mesh)
		if it.Op == "prune" && sender != nil && accepted(sender) {
			t := w.topicName(it.a(1))
			if _, ok := pre.mesh[t]; ok {
				bo := time.Duration(it.a(2)) * time.Second
				if it.a(2) > 4e9 {
					// more seconds than a time.Duration can hold: "for ever" (no run lasts that long)
					bo = time.Duration(1 << 62)
					s.probe("prune_received_with_huge_backoff")
				}
				if bo <= 0 {
					bo = params.PruneBackoff
				}
				extend(sender.id, t, nowD, bo)
				s.probe("prune_received")
				if bo > params.PruneBackoff {
					s.probe("peer_backoff_longer_than_configured")
				}
			}
		}
		// C08: GRAFT received
		if it.Op == "graft" && sender != nil && accepted(sender) {
			t := w.topicName(it.a(1))
			id := sender.id
			_, hasMesh := pre.mesh[t]
			e := ledger[lkey(id, t)]
			exp, hasBo := pre.backoff[t][id]
			_ = exp
			running := e != nil && nowD < e.until
			if hasMesh && !pre.mesh[t][id] && !pre.direct[id] && running && hasBo && prop == "C08" {
				s.probe("graft_during_backoff")
				// refused
				if post.mesh[t][id] {
					s.violate("C08", "refusal", "C08/graft-during-backoff/admitted", "GRAFT(%s) from %s at %v admitted although back-off runs until %v", t, sender.name, nowD, e.until)
				}
				i := int(it.a(0))
				if pre.inAlive[i] && post.inAlive[i] && !pre.stalled[i] {
					dropped := false
					for _, r := range raws {
						if r.kind == "drop" && r.p == id {
							dropped = true
						}
					}
					seen := false
					for _, o := range framesBetween(w, i, pre, post) {
						for _, pr := range o.rpc.GetControl().GetPrune() {
							if pr.GetTopicID() == t {
								seen = true
							}
						}
					}
					if !seen && !dropped {
						s.violate("C08", "refusal", "C08/graft-during-backoff/no-prune", "GRAFT(%s) from %s during back-off was not answered with PRUNE", t, sender.name)
					}
				}
				if _, known := pre.penalty[id]; scoring && known {
					d := post.penalty[id] - pre.penalty[id]
					// doubly when it arrives within the graft-flood threshold of the PRUNE - whatever the
					// length of the back-off that PRUNE started (the signature names the kind of period so
					// that a finding about one kind does not hide another)
					flood := nowD < e.from+params.GraftFloodThreshold
					kind := ""
					switch {
					case e.period == params.PruneBackoff:
					case e.period == params.UnsubscribeBackoff:
						kind = "/after-unsubscribe-backoff"
					default:
						kind = "/after-peer-named-backoff"
					}
					if kind == "/after-peer-named-backoff" {
						// the running back-off was started by a PRUNE the PEER sent: whether the flood
						// threshold (time since "the last PRUNE") applies to it is not said; 1 or 2
						if d != 1 && d != 2 {
							s.violate("C08", "penalty", "C08/graft-during-backoff/penalty"+kind, "GRAFT(%s) from %s during a back-off the peer had named itself: behaviour penalty rose by %v, want 1 or 2", t, sender.name, d)
						}
					}
					switch {
					case kind == "/after-peer-named-backoff":
					case flood && d != 2:
						s.violate("C08", "penalty", "C08/graft-during-backoff/penalty"+kind, "GRAFT(%s) from %s %v after the PRUNE (flood threshold %v, back-off period %v): behaviour penalty rose by %v, want 2", t, sender.name, nowD-e.from, params.GraftFloodThreshold, e.period, d)
					case !flood && d != 1:
						s.violate("C08", "penalty", "C08/graft-during-backoff/penalty"+kind, "GRAFT(%s) from %s %v after the PRUNE (flood threshold %v, back-off period %v): behaviour penalty rose by %v, want 1", t, sender.name, nowD-e.from, params.GraftFloodThreshold, e.period, d)
					}
					if flood {
						s.probe("graft_inside_flood_threshold")
					}
				}
				// back-off is extended
				if nb, ok := post.backoff[t][id]; !ok || nb.Sub(s.epoch) < nowD+params.PruneBackoff-time.Millisecond {
					s.violate("C08", "refusal", "C08/graft-during-backoff/not-extended", "GRAFT(%s) from %s during back-off did not extend the back-off", t, sender.name)
				}
				extend(id, t, nowD, params.PruneBackoff)
			}
			// (refusals for other reasons - negative score, mesh full, no outbound stream - are not
			// "pruning a peer from the mesh": they create no obligation in the ledger)
		}
		wireC08()
		if prop != "C07" {
			return
		}
		if it.Op == "graft2" && sender != nil && accepted(sender) && score(pre, sender.id) >= 0 && score(post, sender.id) < 0 {
			// the trigger of the two-GRAFT rule below was met (on a correct tree the second GRAFT is refused)
			s.probe("graft2_score_turned_negative_inside_rpc")
		}
		// admission / unexplained changes
		for t, Q := range post.mesh {
			P := pre.mesh[t]
			_, existed := pre.mesh[t]
			for id := range Q {
				if P[id] {
					continue
				}
				switch {
				case it.Op == "graft" && sender != nil && id == sender.id && w.topicName(it.a(1)) == t:
					s.probe("remote_graft_admitted")
					why := ""
					switch {
					case pre.direct[id]:
						why = "direct peer"
					case score(pre, id) < 0:
						why = "negative score"
					case len(P) >= params.Dhi && !pre.outbound[id]:
						why = "mesh at Dhi and sender inbound"
					}
					if exp, ok := pre.backoff[t][id]; ok && s.epoch.Add(nowD).Before(exp) {
						why = "back-off in force"
					}
					if _, ok := pre.gsPeers[id]; !ok {
						why = "sender is not a connected router peer"
					}
					if why != "" {
						s.violate("C07", "admission", "C07/graft/admitted/"+why, "GRAFT(%s) from %s admitted although: %s", t, sender.name, why)
					}
				case it.Op == "graft2" && sender != nil && id == sender.id && (w.topicName(it.a(1)) == t || w.topicName(it.a(2)) == t):
					// two GRAFTs in one RPC, handled in wire order: each is judged by the state it meets
					s.probe("remote_graft2_admitted")
					t1, t2 := w.topicName(it.a(1)), w.topicName(it.a(2))
					why := ""
					switch {
					case pre.direct[id]:
						why = "direct peer"
					case score(pre, id) < 0:
						why = "negative score"
					case len(P) >= params.Dhi && !pre.outbound[id]:
						why = "mesh at Dhi and sender inbound"
					}
					if exp, ok := pre.backoff[t][id]; ok && s.epoch.Add(nowD).Before(exp) {
						why = "back-off in force"
					}
					if _, ok := pre.gsPeers[id]; !ok {
						why = "sender is not a connected router peer"
					}
					// No time passes inside the item and admitting a GRAFT costs nothing, so a score that is
					// negative afterwards and was not before became so through the refusal of the FIRST GRAFT,
					// i.e. before the second one was judged.
					if why == "" && t == t2 && t1 != t2 && score(pre, id) >= 0 && score(post, id) < 0 && !(post.mesh[t1][id] && !pre.mesh[t1][id]) {
						s.probe("graft2_second_judged_after_penalty")
						why = "negative score after the penalty for the first GRAFT of the same RPC"
					}
					if why != "" {
						s.violate("C07", "admission", "C07/graft/admitted/"+why, "GRAFT(%s) from %s (RPC with GRAFT %s, %s) admitted although: %s", t, sender.name, t1, t2, why)
					}
				case !existed && (it.Op == "node-sub" || it.Op == "node-relay"):
					// Join: eligible candidates only, GRAFT sent
					s.probe("join_graft")
					// the statement forbids direct, backed-off and negatively scored peers (a promoted fanout
					// member that meanwhile left the topic is not in that list and is not flagged)
					switch {
					case pre.direct[id]:
						s.violate("C07", "admission", "C07/join/ineligible-graft/direct", "Join(%s) grafted direct peer %s", t, shortPeer(id))
					case score(pre, id) < 0:
						s.violate("C07", "admission", "C07/join/ineligible-graft/negative", "Join(%s) grafted peer %s with score %v", t, shortPeer(id), score(pre, id))
					}
					if _, bo := pre.backoff[t][id]; bo {
						s.violate("C07", "admission", "C07/join/ineligible-graft/backed-off", "Join(%s) grafted backed-off peer %s", t, shortPeer(id))
					}
					if pre.fanout[t][id] {
						s.probe("join_promotes_fanout")
					}
					if seen, checkable := sawCtl(pre, post, id, t, true); checkable && !seen {
						s.violate("C07", "control", "C07/control/graft-not-sent", "Join(%s) added %s but no GRAFT reached its stream", t, shortPeer(id))
					}
				default:
					s.violate("C07", "admission", "C07/unexplained-addition", "%s became a member of mesh %s during item %s %v", shortPeer(id), t, it.Op, it.A)
				}
			}
			if !existed && len(Q) > params.D {
				s.violate("C07", "growth", "C07/join/overgrown", "Join(%s) created a mesh of %d > D=%d", t, len(Q), params.D)
			}
		}
		// leave: PRUNE to every member
		for t, P := range pre.mesh {
			if _, ok := post.mesh[t]; ok {
				continue
			}
			for id := range P {
				if seen, checkable := sawCtl(pre, post, id, t, false); checkable && !seen {
					s.violate("C07", "control", "C07/control/prune-not-sent", "Leave(%s): no PRUNE reached %s", t, shortPeer(id))
				} else if checkable {
					s.probe("leave_prune_checked")
				}
			}
		}
	})

	w.atEnd = append(w.atEnd, func() {
		s.nontrivial = hbN > 0 && len(w.fakes) > 0
		s.class = fmt.Sprintf("D%d/%d/%d/%d/%d-%x", params.D, params.Dlo, params.Dhi, params.Dscore, params.Dout, shortHash([]byte(c13ClassStrAll(w))))
	})
	w.run()
}

func c13ClassStrAll(w *nodeWorld) string {
	s := ""
	for _, it := range w.plan.Items {
		if it.Op == "adv" {
			s += fmt.Sprintf("a%d,", it.a(0)/1000)
			continue
		}
		s += fmt.Sprintf("%s%d,", it.Op, it.a(0))
	}
	return s
}
