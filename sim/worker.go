package pubsub

// Worker entry point: the driver (vcheck) starts this test binary once per batch of seeds.

import (
	"bufio"
	"encoding/json"
	"fmt"
	"os"
	"runtime"
	"runtime/debug"
	"strings"
	"sync"
	"testing"
	"testing/synctest"
	"time"
)

type Job struct {
	Prop    string   `json:"prop"`
	Tier    string   `json:"tier"`
	Seeds   []uint64 `json:"seeds"`
	Out     string   `json:"out"`
	Plan    *Plan    `json:"plan,omitempty"` // replay / shrink: run exactly this plan
	KeepLog bool     `json:"keep_log,omitempty"`
	Samples int      `json:"samples,omitempty"` // attach plan to the first n results
}

type propDef struct {
	gen  func(seed uint64, tier string) *Plan
	run  map[string]func(s *sim)                   // by world
	post func(res *RunResult, post map[string]any) // optional; runs outside the bubble (real clock)
}

var (
	propsMu  sync.Mutex
	propDefs = map[string]*propDef{}
)

func registerProp(id string, gen func(seed uint64, tier string) *Plan, worlds map[string]func(s *sim)) {
	propsMu.Lock()
	defer propsMu.Unlock()
	propDefs[id] = &propDef{gen: gen, run: worlds}
}

type bubbleOut struct {
	res      *RunResult
	logLines []string
	post     map[string]any
}

// execPlan runs one plan in a fresh bubble.
func execPlan(t *testing.T, plan *Plan, keepLog bool) (*RunResult, []string) {
	def := propDefs[plan.Prop]
	if def == nil {
		return &RunResult{Seed: plan.Seed, Prop: plan.Prop, Panic: "unknown property " + plan.Prop}, nil
	}
	runner := def.run[plan.World]
	if runner == nil {
		return &RunResult{Seed: plan.Seed, Prop: plan.Prop, Panic: "unknown world " + plan.World}, nil
	}
	out := make(chan bubbleOut, 2)
	start := time.Now()
	go func() {
		var last bubbleOut
		defer func() {
			if r := recover(); r != nil {
				msg := fmt.Sprint(r)
				if last.res != nil && strings.Contains(msg, "deadlock") {
					// goroutines left parked at the end of the bubble; the run already reported
					if last.res.Extra == nil {
						last.res.Extra = map[string]any{}
					}
					last.res.Extra["bubble_end"] = msg
					out <- last
					return
				}
				out <- bubbleOut{res: &RunResult{Seed: plan.Seed, Prop: plan.Prop, World: plan.World,
					Panic: msg + "\n" + string(debug.Stack())}}
			}
		}()
		synctest.Test(t, func(t *testing.T) {
			s := newSim(plan)
			s.keepLog = keepLog
			runner(s)
			res := s.result()
			last = bubbleOut{res, s.logLines, s.post}
		})
		out <- last
	}()
	var bo bubbleOut
	select {
	case bo = <-out:
	case <-time.After(30 * time.Second): // real time: a run that does not end is a harness problem
		bo = bubbleOut{res: &RunResult{Seed: plan.Seed, Prop: plan.Prop, World: plan.World, Panic: "HANG: run did not finish within 30s wall"}}
		// ... unless the system under test is the queue alone (no application callbacks, no
		// transport, nothing of the harness takes a lock there) and a goroutine of the bubble sits in
		// Mutex.Lock inside rpc_queue.go: a lock that is never released is the queue's doing
		if plan.Prop == "C14" {
			// C14: a call that sits in Mutex.Lock / RWMutex.(R)Lock inside the library for 30 s of
			// real time waits for a lock nobody will release: it never returns (in a bubble a
			// goroutine blocked on a mutex keeps virtual time from advancing, hence the hang)
			for _, file := range []string{"topic.go", "subscription.go", "pubsub.go", "tracer.go", "discovery.go", "comm.go", "validation.go", "gossipsub.go"} {
				if fn := mutexBlockedIn(file); fn != "" {
					bo.res.Panic = ""
					bo.res.Violations = []Violation{{Property: "C14", Invariant: "returns", Signature: "C14/call-blocked/mutex-never-released/" + fn,
						Detail: "the run did not finish: a goroutine has been blocked in a mutex Lock called from " + fn + " (" + file + ") for 30 s of real time; whoever held the lock has gone without releasing it"}}
					bo.res.Plan = plan
					break
				}
			}
		}
		if plan.World == "queue" {
			if fn := mutexBlockedIn("rpc_queue.go"); fn != "" {
				bo.res.Panic = ""
				bo.res.Violations = []Violation{{Property: "C15", Invariant: "progress", Signature: "C15/progress/mutex-never-released/" + fn,
					Detail: "the run did not finish: a goroutine has been blocked in sync.Mutex.Lock called from " + fn + " (rpc_queue.go) for 30 s of real time; the queue mutex is held by nobody who will release it"}}
				bo.res.Plan = plan
			}
		}
	}
	if def.post != nil && bo.res.Panic == "" {
		def.post(bo.res, bo.post)
		if len(bo.res.Violations) > 0 {
			bo.res.Plan = plan
		}
	}
	bo.res.WallUs = time.Since(start).Microseconds()
	return bo.res, bo.logLines
}

func (s *sim) result() *RunResult {
	r := &RunResult{Seed: s.seed, World: s.plan.World, Prop: s.plan.Prop, Violations: s.viol,
		Digest: s.digest(), Steps: s.steps, VTimeNs: int64(s.now()), Probes: s.probes, Faults: s.faults}
	if s.overflow {
		if r.Extra == nil {
			r.Extra = map[string]any{}
		}
		r.Extra["step_cap_reached"] = true
	}
	r.Nontrivial = s.nontrivial
	r.Class = s.class
	r.Sample = s.sample
	if len(s.viol) > 0 {
		r.Plan = s.plan
	}
	return r
}

func TestVerifWorker(t *testing.T) {
	jf := os.Getenv("VERIF_JOB")
	if jf == "" {
		t.Skip("no VERIF_JOB")
	}
	jb, err := os.ReadFile(jf)
	if err != nil {
		t.Fatal(err)
	}
	var job Job
	if err := json.Unmarshal(jb, &job); err != nil {
		t.Fatal(err)
	}
	f, err := os.OpenFile(job.Out, os.O_CREATE|os.O_WRONLY|os.O_APPEND, 0o644)
	if err != nil {
		t.Fatal(err)
	}
	defer f.Close()
	w := bufio.NewWriter(f)
	emit := func(v any) {
		b, _ := json.Marshal(v)
		w.Write(b)
		w.WriteByte('\n')
		w.Flush()
	}
	def := propDefs[job.Prop]
	if def == nil && job.Plan == nil {
		t.Fatalf("unknown property %q", job.Prop)
	}
	if job.Plan != nil {
		emit(map[string]any{"start": job.Plan.Seed})
		res, log := execPlan(t, job.Plan, job.KeepLog)
		if job.KeepLog {
			res.Extra = mergeExtra(res.Extra, "log", log)
		}
		res.Plan = job.Plan
		emit(res)
		return
	}
	for i, seed := range job.Seeds {
		plan := def.gen(seed, job.Tier)
		plan.Seed = seed
		plan.Prop = job.Prop
		emit(map[string]any{"start": seed, "plan": plan})
		res, _ := execPlan(t, plan, false)
		if i < job.Samples && res.Plan == nil {
			res.Plan = plan
		}
		emit(res)
		if res.Extra != nil && res.Extra["bubble_end"] != nil {
			// leaked bubble goroutines may keep timers running; start from a clean process
			emit(map[string]any{"restart": true, "next": i + 1})
			w.Flush()
			f.Close()
			os.Exit(3)
		}
		if i%64 == 63 {
			runtime.GC()
		}
	}
	emit(map[string]any{"done": true})
}

func mergeExtra(m map[string]any, k string, v any) map[string]any {
	if m == nil {
		m = map[string]any{}
	}
	m[k] = v
	return m
}

// bubbleGoroutines returns the stacks of goroutines of the current bubble (excluding the caller)
// that have a frame in one of the library packages.
func libraryGoroutines() []string {
	buf := make([]byte, 1<<20)
	for {
		n := runtime.Stack(buf, true)
		if n < len(buf) {
			buf = buf[:n]
			break
		}
		buf = make([]byte, 2*len(buf))
	}
	var out []string
	for _, g := range strings.Split(string(buf), "\n\n") {
		hdr, _, _ := strings.Cut(g, "\n")
		if !strings.Contains(hdr, "synctest bubble") {
			continue
		}
		if strings.Contains(hdr, "running") {
			continue
		}
		lib := false
		for _, l := range strings.Split(g, "\n") {
			if !strings.HasPrefix(l, "github.com/libp2p/go-libp2p-pubsub") {
				continue
			}
			// frames of the harness itself live in *_test.go files (zz_verif_*); the file line follows
			lib = true
		}
		if !lib {
			continue
		}
		// drop goroutines whose every pubsub frame is harness code
		if onlyHarnessFrames(g) {
			continue
		}
		out = append(out, g)
	}
	return out
}

func onlyHarnessFrames(g string) bool {
	lines := strings.Split(g, "\n")
	for i := 0; i+1 < len(lines); i++ {
		if strings.HasPrefix(lines[i], "github.com/libp2p/go-libp2p-pubsub") || strings.HasPrefix(lines[i], "created by github.com/libp2p/go-libp2p-pubsub") {
			if strings.HasPrefix(lines[i], "created by") {
				continue
			}
			fl := strings.TrimSpace(lines[i+1])
			if !strings.Contains(fl, "zz_verif_") && !strings.Contains(fl, "/verif/sim/") {
				return false
			}
		}
	}
	return true
}

// mutexBlockedIn: name of the first function of the given source file from which a goroutine is
// currently blocked in sync.(*Mutex).Lock ("" if none).
func mutexBlockedIn(file string) string {
	buf := make([]byte, 4<<20)
	buf = buf[:runtime.Stack(buf, true)]
	for _, g := range strings.Split(string(buf), "\n\n") {
		if !strings.Contains(g, "sync.(*Mutex).Lock") && !strings.Contains(g, "sync.(*RWMutex).Lock") && !strings.Contains(g, "sync.(*RWMutex).RLock") {
			continue
		}
		lines := strings.Split(g, "\n")
		for i := 0; i+1 < len(lines); i++ {
			if strings.Contains(lines[i+1], "/"+file+":") {
				fn := lines[i]
				if k := strings.LastIndex(fn, "("); k > 0 {
					fn = fn[:k]
				}
				if k := strings.LastIndex(fn, "."); k > 0 {
					fn = fn[k+1:]
				}
				return fn
			}
		}
	}
	return ""
}
