#!/bin/sh
# Re-applies every seeded change to /repo in turn and runs the check of its property (and, for the
# few that are caught by a sibling check, that one): prints one line per change. /repo is restored
# after each. Usage: ./regress_seeded.sh [pattern]
cd /verif || exit 2
for d in seeded/${1:-*}/; do
  n=$(basename $d); p=$d/patch.diff
  [ -f $p ] || continue
  prop=$(echo $n | cut -d- -f1)
  chk=$prop
  case $n in C04-r2-m2) chk=C17;; C09-r2-m1) chk=C09;; C01-r2-m2) chk=C05;; esac
  if git -C /repo apply --check /verif/$p 2>/dev/null; then git -C /repo apply /verif/$p
  elif git -C /repo apply --3way /verif/$p >/dev/null 2>&1; then :
  else echo "$n: patch does not apply to the current tree"; git -C /repo checkout -q -- . ; git -C /repo reset -q --hard HEAD; continue; fi
  runs=$(python3 -c "import json;print(json.load(open('/verif/checks.json'))['$chk']['quick']['runs']*3)")
  out=$(bin/vcheck run -prop $chk -runs $runs -noevidence -noshrink 2>&1)
  git -C /repo reset -q --hard HEAD
  sigs=$(echo "$out" | grep 'signature:' | sed 's/.*signature: //' | sort -u | head -3 | tr '\n' ';')
  echo "$n [$chk]: $(echo "$out" | grep -c '^VIOLATION') ${sigs:-NOT DETECTED} $(echo "$out" | grep -i 'HARNESS\|BUILD FAILED' | head -1)"
done
find /verif/replays -type f -name '[0-9]*' -delete 2>/dev/null
