#!/bin/sh
# Re-applies every seeded change in turn to a scratch checkout of /repo's HEAD (a git worktree
# outside /repo and /verif, removed at the end; /repo itself is not touched) and runs the check of
# its property against that checkout (VERIF_REPO): one line per change.
# Usage: ./regress_seeded.sh [pattern]
cd /verif || exit 2
[ -x bin/vcheck ] && [ -x bin/vrewrite ] || ./setup.sh >/dev/null 2>&1 || exit 2
W=${TMPDIR:-/tmp}/verif_regress_repo.$$
git -C /repo worktree add --detach -q $W HEAD || exit 2
trap 'git -C /repo worktree remove --force $W 2>/dev/null; git -C /repo worktree prune' EXIT INT TERM
for d in seeded/${1:-*}/; do
  n=$(basename $d); p=$d/patch.diff
  [ -f $p ] || continue
  prop=$(echo $n | cut -d- -f1)
  chk=$prop
  case $n in C04-r2-m2) chk=C17;; C09-r2-m1) chk=C09;; C01-r2-m2) chk=C05;; C12-r3-m2) chk=C11;; esac
  if git -C $W apply --check /verif/$p 2>/dev/null; then git -C $W apply /verif/$p
  elif git -C $W apply --3way /verif/$p >/dev/null 2>&1; then :
  else echo "$n: patch does not apply to the current tree"; git -C $W reset -q --hard HEAD; continue; fi
  runs=$(python3 -c "import json;print(json.load(open('/verif/checks.json'))['$chk']['quick']['runs']*${REGRESS_FACTOR:-3})")
  # mutants of the queue that hang every run would take a watchdog period each: fewer runs there
  case $n in C15-r2-m1|C15-r2-m4) runs=1500;; esac
  out=$(VERIF_REPO=$W bin/vcheck run -prop $chk -runs $runs -noevidence -noshrink 2>&1)
  git -C $W reset -q --hard HEAD
  sigs=$(echo "$out" | grep 'signature:' | sed 's/.*signature: //' | sort -u | head -3 | tr '\n' ';')
  echo "$n [$chk]: $(echo "$out" | grep -c '^VIOLATION') ${sigs:-NOT DETECTED} $(echo "$out" | grep -i 'BUILD FAILED' | head -1)"
done
find /verif/replays -type f -name '[0-9]*' -delete 2>/dev/null
