#!/bin/bash
# Replays every plan under held/: former false alarms of the checks (see DESIGN 0.5).  Each must
# NOT be flagged on the current tree.  exit 0 = none flagged.
cd /verif || exit 2
[ -x bin/vcheck ] && [ -x bin/vrewrite ] || ./setup.sh >/dev/null 2>&1 || exit 2
rc=0
for f in held/*.json; do
  out=$(bin/vcheck replay "$f" 2>&1)
  if echo "$out" | grep -q "^VIOLATION"; then echo "FLAGGED AGAIN: $f"; echo "$out" | tail -3; rc=1; else echo "ok  $f"; fi
done
exit $rc
