module verif

go 1.25


